//! Verification harness for ryanwebber/weechess-rs: independent oracles, generators, the
//! parallel proptest driver and the per-property checks. `vcheck` (src/main.rs) is the command
//! line; the libFuzzer targets in /verif/fuzz call `fuzz_entry`.
#![feature(generic_const_exprs)]
#![allow(incomplete_features)]
#![allow(dead_code)]

pub mod checks;
pub mod fuzz_entry;
pub mod fuzzdrv;
pub mod gen;
pub mod glue;
pub mod oracle;
pub mod procdrv;
pub mod runner;
pub mod search;
