//! Process driver for everything only observable at the `weechess` binary (built by ./check
//! from /repo's working tree into /verif/.target/cli).

use std::io::{BufRead, BufReader, Read, Write};
use std::process::{Child, ChildStdin, Command, Stdio};
use std::sync::mpsc::{self, Receiver, RecvTimeoutError};
use std::time::{Duration, Instant};

pub fn binary() -> String {
    std::env::var("VERIF_WEECHESS_BIN")
        .unwrap_or_else(|_| "/verif/.target/cli/release/weechess".to_string())
}

pub fn binary_exists() -> Result<(), String> {
    let b = binary();
    if std::path::Path::new(&b).is_file() {
        Ok(())
    } else {
        Err(format!("weechess binary not found at {} (run through ./check)", b))
    }
}

pub struct CliOutput {
    pub stdout: String,
    pub stderr: String,
    pub code: Option<i32>,
    pub timed_out: bool,
}

/// Run the CLI to completion with a watchdog.
pub fn run_cli(args: &[&str], timeout: Duration) -> Result<CliOutput, String> {
    let mut child = Command::new(binary())
        .args(args)
        .env("NO_COLOR", "1")
        .env("CLICOLOR", "0")
        .stdin(Stdio::null())
        .stdout(Stdio::piped())
        .stderr(Stdio::piped())
        .spawn()
        .unwrap_or_else(|e| crate::runner::harness_fail(&format!("cannot spawn weechess: {}", e)));
    let mut out = child.stdout.take().unwrap();
    let mut err = child.stderr.take().unwrap();
    let to = std::thread::spawn(move || {
        let mut s = String::new();
        let _ = out.read_to_string(&mut s);
        s
    });
    let te = std::thread::spawn(move || {
        let mut s = String::new();
        let _ = err.read_to_string(&mut s);
        s
    });
    let t0 = Instant::now();
    let mut timed_out = false;
    let code = loop {
        match child.try_wait() {
            Ok(Some(st)) => break st.code(),
            Ok(None) => {
                if t0.elapsed() > timeout {
                    timed_out = true;
                    let _ = child.kill();
                    let _ = child.wait();
                    break None;
                }
                std::thread::sleep(Duration::from_millis(5));
            }
            Err(e) => return Err(format!("wait failed: {}", e)),
        }
    };
    Ok(CliOutput {
        stdout: to.join().unwrap_or_default(),
        stderr: te.join().unwrap_or_default(),
        code,
        timed_out,
    })
}

#[derive(Debug, Clone)]
pub enum Line {
    Out(String),
    Err(String),
    OutClosed,
}

pub struct Uci {
    child: Child,
    stdin: Option<ChildStdin>,
    rx: Receiver<Line>,
    /// everything received so far, in arrival order
    pub log: Vec<Line>,
    /// when each entry of `log` was taken from the reader (parallel to `log`)
    pub stamps: Vec<Instant>,
    pub sent: Vec<String>,
    /// line terminator of `send` (a Windows front end writes CR LF)
    pub eol: &'static str,
}

impl Uci {
    pub fn spawn() -> Result<Uci, String> {
        Uci::spawn_env(&[])
    }

    /// With extra environment variables (e.g. RAYON_NUM_THREADS: the size of the engine's worker pool
    /// is configuration a user controls).
    pub fn spawn_env(vars: &[(&str, String)]) -> Result<Uci, String> {
        let mut cmd = Command::new(binary());
        for (k, v) in vars {
            cmd.env(k, v);
        }
        let mut child = cmd
            .arg("uci")
            .env("NO_COLOR", "1")
            .stdin(Stdio::piped())
            .stdout(Stdio::piped())
            .stderr(Stdio::piped())
            .spawn()
            .unwrap_or_else(|e| crate::runner::harness_fail(&format!("cannot spawn weechess uci: {}", e)));
        let stdin = child.stdin.take();
        let out = child.stdout.take().unwrap();
        let err = child.stderr.take().unwrap();
        let (tx, rx) = mpsc::channel();
        let tx2 = tx.clone();
        std::thread::spawn(move || {
            let r = BufReader::new(out);
            for l in r.split(b'\n') {
                match l {
                    Ok(bytes) => {
                        let s = String::from_utf8_lossy(&bytes).trim_end_matches('\r').to_string();
                        if tx.send(Line::Out(s)).is_err() {
                            return;
                        }
                    }
                    Err(_) => break,
                }
            }
            let _ = tx.send(Line::OutClosed);
        });
        std::thread::spawn(move || {
            let r = BufReader::new(err);
            for l in r.split(b'\n') {
                match l {
                    Ok(bytes) => {
                        let s = String::from_utf8_lossy(&bytes).to_string();
                        if tx2.send(Line::Err(s)).is_err() {
                            return;
                        }
                    }
                    Err(_) => break,
                }
            }
        });
        Ok(Uci {
            child,
            stdin,
            rx,
            log: vec![],
            stamps: vec![],
            sent: vec![],
            eol: "\n",
        })
    }

    /// false if the pipe is closed (the process died)
    pub fn send(&mut self, line: &str) -> bool {
        self.sent.push(line.to_string());
        let Some(si) = self.stdin.as_mut() else { return false };
        let mut data = line.as_bytes().to_vec();
        data.extend_from_slice(self.eol.as_bytes());
        si.write_all(&data).and_then(|_| si.flush()).is_ok()
    }

    pub fn send_bytes(&mut self, data: &[u8]) -> bool {
        self.sent.push(String::from_utf8_lossy(data).to_string());
        let Some(si) = self.stdin.as_mut() else { return false };
        si.write_all(data).and_then(|_| si.flush()).is_ok()
    }

    /// Receive lines until `pred` matches one (returned, with its index in the log), the
    /// output closes, or the process has been silent for `idle` (None). The watchdog is an
    /// *idle* timeout: as long as lines keep arriving the engine is alive and making progress
    /// (on low-mobility positions it reaches depths in the thousands within seconds and prints
    /// megabytes of ever longer pv lines before the bestmove). Hard cap: 15 minutes.
    pub fn wait_for(&mut self, idle: Duration, mut pred: impl FnMut(&Line) -> bool) -> Option<usize> {
        let hard = Instant::now() + Duration::from_secs(900).max(idle);
        let mut deadline = Instant::now() + idle;
        loop {
            let now = Instant::now();
            if now >= deadline || now >= hard {
                return None;
            }
            match self.rx.recv_timeout(deadline - now) {
                Ok(l) => {
                    let closed = matches!(l, Line::OutClosed);
                    let hit = pred(&l);
                    self.log.push(l);
                    self.stamps.push(Instant::now());
                    if hit {
                        return Some(self.log.len() - 1);
                    }
                    if closed {
                        return None;
                    }
                    deadline = Instant::now() + idle;
                }
                Err(RecvTimeoutError::Timeout) => return None,
                Err(RecvTimeoutError::Disconnected) => return None,
            }
        }
    }

    /// Like `wait_for`, but against an absolute deadline (for the few oracles about elapsed time).
    pub fn wait_until(&mut self, deadline: Instant, mut pred: impl FnMut(&Line) -> bool) -> Option<usize> {
        loop {
            let now = Instant::now();
            if now >= deadline {
                return None;
            }
            match self.rx.recv_timeout(deadline - now) {
                Ok(l) => {
                    let closed = matches!(l, Line::OutClosed);
                    let hit = pred(&l);
                    self.log.push(l);
                    self.stamps.push(Instant::now());
                    if hit {
                        return Some(self.log.len() - 1);
                    }
                    if closed {
                        return None;
                    }
                }
                Err(_) => return None,
            }
        }
    }

    pub fn wait_out(&mut self, timeout: Duration, text: &str) -> Option<usize> {
        self.wait_for(timeout, |l| matches!(l, Line::Out(s) if s.trim() == text))
    }

    pub fn wait_out_prefix(&mut self, timeout: Duration, prefix: &str) -> Option<usize> {
        self.wait_for(timeout, |l| matches!(l, Line::Out(s) if s.starts_with(prefix)))
    }

    /// Pull whatever has arrived without blocking longer than `grace`.
    pub fn drain(&mut self, grace: Duration) {
        let _ = self.wait_for(grace, |_| false);
    }

    pub fn alive(&mut self) -> bool {
        matches!(self.child.try_wait(), Ok(None))
    }

    /// Close stdin (end of input) and wait for the exit status.
    pub fn close_and_wait(&mut self, timeout: Duration) -> Option<Option<i32>> {
        self.stdin = None;
        self.wait_exit(timeout)
    }

    pub fn wait_exit(&mut self, timeout: Duration) -> Option<Option<i32>> {
        let t0 = Instant::now();
        loop {
            match self.child.try_wait() {
                Ok(Some(st)) => {
                    // collect the rest of the output
                    self.drain(Duration::from_millis(200));
                    return Some(st.code());
                }
                Ok(None) => {
                    if t0.elapsed() > timeout {
                        return None;
                    }
                    // keep the pipes flowing
                    self.drain(Duration::from_millis(10));
                }
                Err(_) => return None,
            }
        }
    }

    pub fn out_lines(&self) -> Vec<&str> {
        self.log
            .iter()
            .filter_map(|l| match l {
                Line::Out(s) => Some(s.as_str()),
                _ => None,
            })
            .collect()
    }

    pub fn transcript(&self) -> String {
        let mut s = String::new();
        s.push_str("sent:\n");
        for l in self.sent.iter() {
            let l = if l.len() > 200 { format!("{}…({} bytes)", &l.chars().take(200).collect::<String>(), l.len()) } else { l.clone() };
            s.push_str(&format!("  > {}\n", l));
        }
        s.push_str("received:\n");
        for l in self.log.iter().rev().take(40).collect::<Vec<_>>().into_iter().rev() {
            let cut = |x: &str| -> String {
                if x.chars().count() > 240 { format!("{}… ({} chars)", x.chars().take(240).collect::<String>(), x.chars().count()) } else { x.to_string() }
            };
            match l {
                Line::Out(x) => s.push_str(&format!("  < {}\n", cut(x))),
                Line::Err(x) => s.push_str(&format!("  ! {}\n", cut(x))),
                Line::OutClosed => s.push_str("  < [closed]\n"),
            }
        }
        s
    }
}

impl Drop for Uci {
    fn drop(&mut self) {
        self.stdin = None;
        let _ = self.child.kill();
        let _ = self.child.wait();
    }
}
