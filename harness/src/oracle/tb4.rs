//! Exact values for K + two white pieces v K (no pawns): KQQK, KQRK, KRRK, KQBK, KQNK, KRBK,
//! KRNK. Same backward induction as `tb.rs`, but the successor lists are not stored (33 M
//! positions per family): every pass regenerates the moves of the still undecided positions
//! with the rules oracle. Captures lead into the 3-man tables.

use super::rules::{Col, Kind, Pos};
use super::tb::{Tb, Wdl};
use std::sync::Mutex;

const ILLEGAL: i16 = i16::MIN;
const UNKNOWN: i16 = i16::MAX;
pub const SIZE: usize = 2 * 64 * 64 * 64 * 64;

pub struct Tb4 {
    pub k1: Kind,
    pub k2: Kind,
    val: Vec<i16>,
    pub max_win: u16,
}

fn encode(w: Wdl) -> i16 {
    match w {
        Wdl::Draw => 0,
        Wdl::Win(n) => n as i16,
        Wdl::Loss(n) => -(n as i16) - 1,
    }
}

fn decode(v: i16) -> Option<Wdl> {
    match v {
        ILLEGAL | UNKNOWN => None,
        0 => Some(Wdl::Draw),
        v if v > 0 => Some(Wdl::Win(v as u16)),
        v => Some(Wdl::Loss((-v - 1) as u16)),
    }
}

impl Tb4 {
    fn index_of(&self, p: &Pos) -> Option<usize> {
        let mut wk = None;
        let mut bk = None;
        let mut a = None;
        let mut b = None;
        for s in 0..64 {
            match p.b[s] {
                None => {}
                Some((Col::W, Kind::K)) => wk = Some(s),
                Some((Col::B, Kind::K)) => bk = Some(s),
                Some((Col::W, k)) => {
                    if k == self.k1 && a.is_none() {
                        a = Some(s);
                    } else if k == self.k2 && b.is_none() {
                        b = Some(s);
                    } else {
                        return None;
                    }
                }
                Some((Col::B, _)) => return None,
            }
        }
        let (wk, bk, a, b) = (wk?, bk?, a?, b?);
        let stm = if p.stm == Col::W { 0 } else { 1 };
        Some((((stm * 64 + wk) * 64 + bk) * 64 + a) * 64 + b)
    }

    pub fn pos_of(&self, i: usize) -> Option<Pos> {
        let b = i % 64;
        let a = (i / 64) % 64;
        let bk = (i / 4096) % 64;
        let wk = (i / 262144) % 64;
        let stm = if i / 16777216 == 0 { Col::W } else { Col::B };
        if wk == bk || a == b || a == wk || a == bk || b == wk || b == bk {
            return None;
        }
        if self.k1 == self.k2 && a > b {
            return None; // canonical order for like pieces
        }
        let mut p = Pos::empty(stm);
        p.b[wk] = Some((Col::W, Kind::K));
        p.b[bk] = Some((Col::B, Kind::K));
        p.b[a] = Some((Col::W, self.k1));
        p.b[b] = Some((Col::W, self.k2));
        if !p.is_legal_position() {
            return None;
        }
        Some(p)
    }

    /// value of a successor position (this family or, after a capture, a 3-man family)
    fn value_of(&self, sub: &Tb, val: &[i16], s: &Pos) -> i16 {
        if s.men() == 4 {
            match self.index_of(s) {
                Some(j) => val[j],
                None => panic!("successor outside the family: {}", s.fen()),
            }
        } else {
            encode(sub.probe(s).unwrap_or_else(|| panic!("successor outside the 3-man tables: {}", s.fen())))
        }
    }

    pub fn build(k1: Kind, k2: Kind, sub: &Tb, threads: usize) -> Tb4 {
        let mut t = Tb4 { k1, k2, val: vec![ILLEGAL; SIZE], max_win: 0 };
        let threads = threads.max(1);
        let chunk = (SIZE + threads - 1) / threads;
        // pass 0: legality, terminal positions
        {
            let parts: Mutex<Vec<(usize, Vec<i16>)>> = Mutex::new(vec![]);
            std::thread::scope(|sc| {
                for th in 0..threads {
                    let (t, parts) = (&t, &parts);
                    sc.spawn(move || {
                        let lo = th * chunk;
                        let hi = ((th + 1) * chunk).min(SIZE);
                        let mut v = vec![ILLEGAL; hi - lo];
                        for i in lo..hi {
                            let Some(p) = t.pos_of(i) else { continue };
                            v[i - lo] = if p.has_legal_move() {
                                UNKNOWN
                            } else if p.in_check(p.stm) {
                                -1
                            } else {
                                0
                            };
                        }
                        parts.lock().unwrap().push((lo, v));
                    });
                }
            });
            for (lo, v) in parts.into_inner().unwrap() {
                t.val[lo..lo + v.len()].copy_from_slice(&v);
            }
        }
        let mut d: i16 = 1;
        loop {
            let updates: Mutex<Vec<(u32, i16)>> = Mutex::new(vec![]);
            std::thread::scope(|sc| {
                for th in 0..threads {
                    let (t, updates) = (&t, &updates);
                    sc.spawn(move || {
                        let lo = th * chunk;
                        let hi = ((th + 1) * chunk).min(SIZE);
                        let mut mine = vec![];
                        for i in lo..hi {
                            if t.val[i] != UNKNOWN {
                                continue;
                            }
                            // only positions of the right parity can be decided in this pass:
                            // White to move wins at odd distances, Black to move loses at even ones
                            let white_to_move = i / 16777216 == 0;
                            if white_to_move != (d % 2 == 1) {
                                continue;
                            }
                            let p = t.pos_of(i).unwrap();
                            let legal = p.legal();
                            if d % 2 == 1 {
                                if legal.iter().any(|(_, s)| t.value_of(sub, &t.val, s) == -d) {
                                    mine.push((i as u32, d));
                                }
                            } else {
                                let mut all = true;
                                let mut mx = 0;
                                for (_, s) in legal.iter() {
                                    let v = t.value_of(sub, &t.val, s);
                                    if v > 0 && v != UNKNOWN && v < d {
                                        mx = mx.max(v);
                                    } else {
                                        all = false;
                                        break;
                                    }
                                }
                                if all && mx == d - 1 {
                                    mine.push((i as u32, -(d + 1)));
                                }
                            }
                        }
                        updates.lock().unwrap().extend(mine);
                    });
                }
            });
            let ups = updates.into_inner().unwrap();
            // a pass can be empty without the induction being over: a capture may lead into a
            // 3-man position with a long mate. Stop after the longest 3-man win plus two empty passes.
            if ups.is_empty() && d as u16 > sub.max_win + 2 {
                break;
            }
            for (i, v) in ups {
                t.val[i as usize] = v;
                if v > 0 {
                    t.max_win = t.max_win.max(v as u16);
                }
            }
            d += 1;
            if d > 200 {
                break;
            }
        }
        for v in t.val.iter_mut() {
            if *v == UNKNOWN {
                *v = 0;
            }
        }
        t
    }

    /// Value for the side to move (White has both pieces; mirror a position first if Black has them).
    pub fn probe(&self, p: &Pos) -> Option<Wdl> {
        let black_has = p.b.iter().flatten().any(|x| x.0 == Col::B && x.1 != Kind::K);
        let q = if black_has { p.mirror() } else { p.clone() };
        decode(self.val[self.index_of(&q)?])
    }
}
