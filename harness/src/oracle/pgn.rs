//! Independent PGN reader: tag pairs, "1.e4" and "1. e4" numbering, "1...e5", results,
//! comments, NAGs, arbitrary blank lines. It does not imitate the build script's chunking.

#[derive(Debug, Clone)]
pub struct Game {
    pub file: String,
    /// 1-based line of the first tag of the game
    pub line: usize,
    pub san: Vec<String>,
}

fn is_result(t: &str) -> bool {
    matches!(t, "1-0" | "0-1" | "1/2-1/2" | "*")
}

/// strip a leading move number ("12." / "12..." ); None if nothing is left
fn strip_number(t: &str) -> Option<&str> {
    let digits = t.chars().take_while(|c| c.is_ascii_digit()).count();
    if digits > 0 && t[digits..].starts_with('.') {
        let rest = t[digits..].trim_start_matches('.');
        if rest.is_empty() { None } else { Some(rest) }
    } else {
        Some(t)
    }
}

pub fn parse(file: &str, text: &str) -> Vec<Game> {
    let mut games = vec![];
    let mut cur: Option<Game> = None;
    let mut in_moves = false;
    let mut in_comment = false;
    let mut variation = 0usize;
    for (ln, raw) in text.lines().enumerate() {
        let line = raw.trim();
        if line.is_empty() {
            continue;
        }
        if line.starts_with('[') && !in_comment {
            // a tag pair: starts a new game if we were in movetext (or at the very start)
            if in_moves || cur.is_none() {
                if let Some(g) = cur.take() {
                    games.push(g);
                }
                cur = Some(Game { file: file.to_string(), line: ln + 1, san: vec![] });
                in_moves = false;
            }
            continue;
        }
        // movetext
        in_moves = true;
        let g = cur.get_or_insert_with(|| Game { file: file.to_string(), line: ln + 1, san: vec![] });
        for tok in line.split_whitespace() {
            let mut t = tok;
            if in_comment {
                if let Some(i) = t.find('}') {
                    in_comment = false;
                    t = &t[i + 1..];
                } else {
                    continue;
                }
            }
            if t.is_empty() {
                continue;
            }
            if let Some(i) = t.find('{') {
                let head = &t[..i];
                in_comment = !t[i..].contains('}');
                t = head;
                if t.is_empty() {
                    continue;
                }
            }
            if t.starts_with('(') {
                variation += t.matches('(').count();
            }
            if variation > 0 {
                variation = variation.saturating_sub(t.matches(')').count());
                continue;
            }
            if t.starts_with('$') || is_result(t) {
                continue;
            }
            let Some(mv) = strip_number(t) else { continue };
            if is_result(mv) {
                continue;
            }
            g.san.push(mv.to_string());
        }
    }
    if let Some(g) = cur.take() {
        games.push(g);
    }
    games
}
