pub mod rules;
pub mod san;
