pub mod pgn;
pub mod rules;
pub mod san;
pub mod solver;
pub mod tb;
pub mod tb4;
