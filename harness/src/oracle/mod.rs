pub mod rules;
