//! Independent SAN writer (all admissible spellings) and SAN reader.

use super::rules::{sq_name, Kind, Mv, Pos, Status};

fn file_ch(s: usize) -> char {
    (b'a' + (s % 8) as u8) as char
}
fn rank_ch(s: usize) -> char {
    (b'1' + (s / 8) as u8) as char
}

#[derive(Clone, Debug, PartialEq, Eq)]
pub struct Spelling {
    pub text: String,
    /// needs disambiguation / has promotion / castle / ep / suffix
    pub interesting: bool,
}

/// Check / mate suffix appropriate for the move leading to `succ`.
pub fn suffix_for(succ: &Pos) -> Option<char> {
    if succ.in_check(succ.stm) {
        if succ.status() == Status::Checkmate {
            Some('#')
        } else {
            Some('+')
        }
    } else {
        None
    }
}

/// All admissible SAN spellings of legal move `m` (which leads to `succ`) in `p`.
/// `legal` is the full legal list of `p`.
pub fn spellings(p: &Pos, legal: &[(Mv, Pos)], m: &Mv, succ: &Pos) -> Vec<Spelling> {
    let _ = p;
    let mut bodies: Vec<(String, bool)> = vec![];
    if let Some(side) = m.castle {
        bodies.push((if side == 0 { "O-O".into() } else { "O-O-O".into() }, true));
    } else if m.kind == Kind::P {
        let promos: Vec<String> = match m.promo {
            Some(k) => vec![format!("={}", k.letter()), format!("{}", k.letter())],
            None => vec![String::new()],
        };
        for pr in promos.iter() {
            if m.cap.is_some() {
                bodies.push((format!("{}x{}{}", file_ch(m.from), sq_name(m.to), pr), m.ep || m.promo.is_some()));
                bodies.push((format!("{}x{}{}", sq_name(m.from), sq_name(m.to), pr), true));
            } else {
                bodies.push((format!("{}{}", sq_name(m.to), pr), m.promo.is_some()));
                bodies.push((format!("{}{}{}", sq_name(m.from), sq_name(m.to), pr), true));
            }
        }
    } else {
        let rivals: Vec<&Mv> = legal
            .iter()
            .map(|x| &x.0)
            .filter(|o| o.kind == m.kind && o.to == m.to && o.from != m.from)
            .collect();
        let x = if m.cap.is_some() { "x" } else { "" };
        let l = m.kind.letter();
        let needs = !rivals.is_empty();
        if rivals.is_empty() {
            bodies.push((format!("{}{}{}", l, x, sq_name(m.to)), false));
        }
        if !rivals.iter().any(|o| o.from % 8 == m.from % 8) {
            bodies.push((format!("{}{}{}{}", l, file_ch(m.from), x, sq_name(m.to)), needs));
        }
        if !rivals.iter().any(|o| o.from / 8 == m.from / 8) {
            bodies.push((format!("{}{}{}{}", l, rank_ch(m.from), x, sq_name(m.to)), needs));
        }
        bodies.push((format!("{}{}{}{}", l, sq_name(m.from), x, sq_name(m.to)), needs));
    }
    let suffix = suffix_for(succ);
    let mut out = vec![];
    for (b, interesting) in bodies {
        out.push(Spelling { text: b.clone(), interesting });
        if let Some(s) = suffix {
            out.push(Spelling { text: format!("{}{}", b, s), interesting: true });
        }
    }
    out
}

/// The one canonical (minimal) SAN of a legal move.
pub fn canonical(p: &Pos, legal: &[(Mv, Pos)], m: &Mv, succ: &Pos) -> String {
    let mut body = if let Some(side) = m.castle {
        if side == 0 { "O-O".to_string() } else { "O-O-O".to_string() }
    } else if m.kind == Kind::P {
        let pr = m.promo.map(|k| format!("={}", k.letter())).unwrap_or_default();
        if m.cap.is_some() {
            format!("{}x{}{}", file_ch(m.from), sq_name(m.to), pr)
        } else {
            format!("{}{}", sq_name(m.to), pr)
        }
    } else {
        let rivals: Vec<&Mv> = legal
            .iter()
            .map(|x| &x.0)
            .filter(|o| o.kind == m.kind && o.to == m.to && o.from != m.from)
            .collect();
        let x = if m.cap.is_some() { "x" } else { "" };
        let dis = if rivals.is_empty() {
            String::new()
        } else if !rivals.iter().any(|o| o.from % 8 == m.from % 8) {
            file_ch(m.from).to_string()
        } else if !rivals.iter().any(|o| o.from / 8 == m.from / 8) {
            rank_ch(m.from).to_string()
        } else {
            sq_name(m.from)
        };
        format!("{}{}{}{}", m.kind.letter(), dis, x, sq_name(m.to))
    };
    let _ = p;
    if let Some(s) = suffix_for(succ) {
        body.push(s);
    }
    body
}

/// Spelling that denotes exactly this (possibly illegal) pseudo-legal move and no other:
/// piece letter, full origin square, capture mark, destination, promotion.
pub fn full_spelling(m: &Mv) -> String {
    if let Some(side) = m.castle {
        return if side == 0 { "O-O".into() } else { "O-O-O".into() };
    }
    let x = if m.cap.is_some() { "x" } else { "" };
    let pr = m.promo.map(|k| format!("={}", k.letter())).unwrap_or_default();
    if m.kind == Kind::P {
        format!("{}{}{}{}", sq_name(m.from), x, sq_name(m.to), pr)
    } else {
        format!("{}{}{}{}{}", m.kind.letter(), sq_name(m.from), x, sq_name(m.to), pr)
    }
}

/// Independent SAN reader: resolves `text` against the legal moves of `p`.
/// Ok(index into legal) when exactly one legal move matches.
pub fn read(legal: &[(Mv, Pos)], text: &str) -> Result<usize, String> {
    let t = text.trim_end_matches(|c| c == '+' || c == '#' || c == '!' || c == '?');
    let matches: Vec<usize> = if t == "O-O" || t == "0-0" {
        legal.iter().enumerate().filter(|(_, x)| x.0.castle == Some(0)).map(|x| x.0).collect()
    } else if t == "O-O-O" || t == "0-0-0" {
        legal.iter().enumerate().filter(|(_, x)| x.0.castle == Some(1)).map(|x| x.0).collect()
    } else {
        let chars: Vec<char> = t.chars().collect();
        if chars.len() < 2 {
            return Err(format!("SAN '{}' too short", text));
        }
        let mut end = chars.len();
        let mut promo = None;
        let kind_of = |c: char| match c {
            'N' => Some(Kind::N),
            'B' => Some(Kind::B),
            'R' => Some(Kind::R),
            'Q' => Some(Kind::Q),
            'K' => Some(Kind::K),
            _ => None,
        };
        if let Some(k) = kind_of(chars[end - 1]) {
            if end >= 3 {
                promo = Some(k);
                end -= 1;
                if chars[end - 1] == '=' {
                    end -= 1;
                }
            }
        }
        if end < 2 {
            return Err(format!("SAN '{}' has no destination", text));
        }
        let dest: String = chars[end - 2..end].iter().collect();
        let to = super::rules::parse_sq(&dest).ok_or_else(|| format!("SAN '{}': bad destination", text))?;
        let mut head: Vec<char> = chars[..end - 2].to_vec();
        let mut capture = false;
        if head.last() == Some(&'x') {
            capture = true;
            head.pop();
        }
        let mut kind = Kind::P;
        if let Some(c) = head.first() {
            if let Some(k) = kind_of(*c) {
                kind = k;
                head.remove(0);
            }
        }
        let mut ofile = None;
        let mut orank = None;
        for c in head {
            match c {
                'a'..='h' => ofile = Some((c as u8 - b'a') as usize),
                '1'..='8' => orank = Some((c as u8 - b'1') as usize),
                _ => return Err(format!("SAN '{}': unexpected '{}'", text, c)),
            }
        }
        legal
            .iter()
            .enumerate()
            .filter(|(_, (m, _))| {
                m.castle.is_none()
                    && m.kind == kind
                    && m.to == to
                    && m.promo == promo
                    && ofile.map(|f| m.from % 8 == f).unwrap_or(true)
                    && orank.map(|r| m.from / 8 == r).unwrap_or(true)
                    && (!capture || m.cap.is_some())
            })
            .map(|x| x.0)
            .collect()
    };
    match matches.len() {
        1 => Ok(matches[0]),
        0 => Err(format!("SAN '{}' matches no legal move", text)),
        n => Err(format!("SAN '{}' matches {} legal moves", text, n)),
    }
}
