//! Exhaustive AND/OR mate solver over the rules oracle, with a node budget.
//! `Some(true/false)` is a proof, `None` means the budget ran out (undecided).

use super::rules::Pos;

pub struct Solver {
    pub nodes: u64,
    pub budget: u64,
}

impl Solver {
    pub fn new(budget: u64) -> Self {
        Solver { nodes: 0, budget }
    }

    /// Can the side to move force checkmate within `n` plies (n odd: its own move mates last)?
    pub fn mates_within(&mut self, p: &Pos, n: u32) -> Option<bool> {
        if n == 0 {
            return Some(false);
        }
        self.nodes += 1;
        if self.nodes > self.budget {
            return None;
        }
        let legal = p.legal();
        // mates in one first (cheap cut)
        for (_, s) in legal.iter() {
            if s.in_check(s.stm) && !s.has_legal_move() {
                return Some(true);
            }
        }
        if n < 3 {
            return Some(false);
        }
        let mut undecided = false;
        for (_, s) in legal.iter() {
            match self.lost_within(s, n - 1) {
                Some(true) => return Some(true),
                Some(false) => {}
                None => undecided = true,
            }
        }
        if undecided { None } else { Some(false) }
    }

    /// Is the side to move checkmated within `k` plies whatever it plays (k even; 0 = now)?
    pub fn lost_within(&mut self, p: &Pos, k: u32) -> Option<bool> {
        self.nodes += 1;
        if self.nodes > self.budget {
            return None;
        }
        let legal = p.legal();
        if legal.is_empty() {
            return Some(p.in_check(p.stm));
        }
        if k < 2 {
            return Some(false);
        }
        let mut undecided = false;
        for (_, s) in legal.iter() {
            match self.mates_within(s, k - 1) {
                Some(false) => return Some(false),
                Some(true) => {}
                None => undecided = true,
            }
        }
        if undecided { None } else { Some(true) }
    }
}

/// Exact mate distance up to `max_n` plies: Some(Some(n)) = mates in exactly n, Some(None) = no
/// mate within max_n, None = undecided within the budget.
pub fn mate_distance(p: &Pos, max_n: u32, budget: u64) -> Option<Option<u32>> {
    let mut n = 1;
    while n <= max_n {
        let mut s = Solver::new(budget);
        match s.mates_within(p, n) {
            Some(true) => return Some(Some(n)),
            Some(false) => {}
            None => return None,
        }
        n += 2;
    }
    Some(None)
}
