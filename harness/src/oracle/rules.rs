//! Independent rules-of-chess oracle: mailbox board, ray walking in (file, rank)
//! coordinates, make-move legality. Shares no code with weechess (no bitboards, no tables).
//! Anchored to the published perft counts by `self_test`.

use serde::{Deserialize, Serialize};

#[derive(Clone, Copy, PartialEq, Eq, Debug, Hash, PartialOrd, Ord, Serialize, Deserialize)]
pub enum Kind {
    P,
    N,
    B,
    R,
    Q,
    K,
}

pub const KINDS: [Kind; 6] = [Kind::P, Kind::N, Kind::B, Kind::R, Kind::Q, Kind::K];

impl Kind {
    pub fn letter(self) -> char {
        match self {
            Kind::P => 'P',
            Kind::N => 'N',
            Kind::B => 'B',
            Kind::R => 'R',
            Kind::Q => 'Q',
            Kind::K => 'K',
        }
    }
    /// material in half-pawn units used by C05's bound (P1 N3 B3.5 R5 Q9)
    pub fn worth2(self) -> i32 {
        match self {
            Kind::P => 2,
            Kind::N => 6,
            Kind::B => 7,
            Kind::R => 10,
            Kind::Q => 18,
            Kind::K => 0,
        }
    }
}

#[derive(Clone, Copy, PartialEq, Eq, Debug, Hash, PartialOrd, Ord, Serialize, Deserialize)]
pub enum Col {
    W,
    B,
}

impl Col {
    pub fn opp(self) -> Col {
        match self {
            Col::W => Col::B,
            Col::B => Col::W,
        }
    }
}

/// Square index: rank * 8 + file, a1 = 0, h8 = 63.
pub type Sq = usize;

pub fn sq_name(s: Sq) -> String {
    format!("{}{}", (b'a' + (s % 8) as u8) as char, s / 8 + 1)
}

pub fn parse_sq(s: &str) -> Option<Sq> {
    let b = s.as_bytes();
    if b.len() != 2 || !(b'a'..=b'h').contains(&b[0]) || !(b'1'..=b'8').contains(&b[1]) {
        return None;
    }
    Some((b[1] - b'1') as usize * 8 + (b[0] - b'a') as usize)
}

#[derive(Clone, PartialEq, Eq, Debug, Hash)]
pub struct Pos {
    pub b: [Option<(Col, Kind)>; 64],
    pub stm: Col,
    /// K, Q, k, q
    pub cas: [bool; 4],
    pub ep: Option<Sq>,
    pub half: u64,
    pub full: u64,
}

/// The attribute tuple of a move (C01): everything a weechess `Move` reports.
#[derive(Clone, Copy, PartialEq, Eq, Debug, Hash, PartialOrd, Ord, Serialize, Deserialize)]
pub struct Mv {
    pub from: Sq,
    pub to: Sq,
    pub kind: Kind,
    pub col: Col,
    pub cap: Option<Kind>,
    pub promo: Option<Kind>,
    pub ep: bool,
    /// 0 = king side, 1 = queen side
    pub castle: Option<u8>,
    pub dbl: bool,
}

impl Mv {
    pub fn lan(&self) -> String {
        let mut s = format!("{}{}", sq_name(self.from), sq_name(self.to));
        if let Some(p) = self.promo {
            s.push(p.letter().to_ascii_lowercase());
        }
        s
    }
}

pub const KNIGHT_D: [(i32, i32); 8] = [
    (1, 2),
    (2, 1),
    (2, -1),
    (1, -2),
    (-1, -2),
    (-2, -1),
    (-2, 1),
    (-1, 2),
];
pub const KING_D: [(i32, i32); 8] = [
    (1, 1),
    (1, 0),
    (1, -1),
    (0, -1),
    (-1, -1),
    (-1, 0),
    (-1, 1),
    (0, 1),
];
pub const ROOK_D: [(i32, i32); 4] = [(1, 0), (-1, 0), (0, 1), (0, -1)];
pub const BISHOP_D: [(i32, i32); 4] = [(1, 1), (1, -1), (-1, 1), (-1, -1)];

#[inline]
pub fn off(sq: Sq, d: (i32, i32)) -> Option<Sq> {
    let f = (sq % 8) as i32 + d.0;
    let r = (sq / 8) as i32 + d.1;
    if (0..8).contains(&f) && (0..8).contains(&r) {
        Some((r * 8 + f) as usize)
    } else {
        None
    }
}

#[derive(Clone, Copy, PartialEq, Eq, Debug)]
pub enum Status {
    Normal,
    Checkmate,
    Stalemate,
}

impl Pos {
    pub fn empty(stm: Col) -> Pos {
        Pos {
            b: [None; 64],
            stm,
            cas: [false; 4],
            ep: None,
            half: 0,
            full: 1,
        }
    }

    pub fn startpos() -> Pos {
        Pos::from_fen("rnbqkbnr/pppppppp/8/8/8/8/PPPPPPPP/RNBQKBNR w KQkq - 0 1").unwrap()
    }

    /// Strict reader for well-formed FEN (six fields). Returns None on anything else.
    pub fn from_fen(s: &str) -> Option<Pos> {
        let p: Vec<&str> = s.split(' ').collect();
        if p.len() != 6 {
            return None;
        }
        let mut b = [None; 64];
        let rows: Vec<&str> = p[0].split('/').collect();
        if rows.len() != 8 {
            return None;
        }
        for (ri, row) in rows.iter().enumerate() {
            let r = 7 - ri;
            let mut f = 0usize;
            for ch in row.chars() {
                if let Some(d) = ch.to_digit(10) {
                    if d == 0 || d > 8 {
                        return None;
                    }
                    f += d as usize;
                } else {
                    let c = if ch.is_ascii_uppercase() { Col::W } else { Col::B };
                    let k = match ch.to_ascii_lowercase() {
                        'p' => Kind::P,
                        'n' => Kind::N,
                        'b' => Kind::B,
                        'r' => Kind::R,
                        'q' => Kind::Q,
                        'k' => Kind::K,
                        _ => return None,
                    };
                    if f > 7 {
                        return None;
                    }
                    b[r * 8 + f] = Some((c, k));
                    f += 1;
                }
            }
            if f != 8 {
                return None;
            }
        }
        let stm = match p[1] {
            "w" => Col::W,
            "b" => Col::B,
            _ => return None,
        };
        let mut cas = [false; 4];
        if p[2] != "-" {
            for ch in p[2].chars() {
                match ch {
                    'K' => cas[0] = true,
                    'Q' => cas[1] = true,
                    'k' => cas[2] = true,
                    'q' => cas[3] = true,
                    _ => return None,
                }
            }
        }
        let ep = if p[3] == "-" { None } else { Some(parse_sq(p[3])?) };
        Some(Pos {
            b,
            stm,
            cas,
            ep,
            half: p[4].parse().ok()?,
            full: p[5].parse().ok()?,
        })
    }

    pub fn placement(&self) -> String {
        let mut o = String::new();
        for r in (0..8).rev() {
            let mut e = 0;
            for f in 0..8 {
                match self.b[r * 8 + f] {
                    None => e += 1,
                    Some((c, k)) => {
                        if e > 0 {
                            o.push_str(&e.to_string());
                            e = 0;
                        }
                        let ch = k.letter();
                        o.push(if c == Col::W { ch } else { ch.to_ascii_lowercase() });
                    }
                }
            }
            if e > 0 {
                o.push_str(&e.to_string());
            }
            if r > 0 {
                o.push('/');
            }
        }
        o
    }

    pub fn castle_str(&self) -> String {
        let mut cs = String::new();
        for (i, ch) in "KQkq".chars().enumerate() {
            if self.cas[i] {
                cs.push(ch);
            }
        }
        if cs.is_empty() {
            cs.push('-');
        }
        cs
    }

    /// First four FEN fields (everything rule-relevant).
    pub fn fen4(&self) -> String {
        format!(
            "{} {} {} {}",
            self.placement(),
            if self.stm == Col::W { "w" } else { "b" },
            self.castle_str(),
            self.ep.map(sq_name).unwrap_or_else(|| "-".to_string())
        )
    }

    pub fn fen(&self) -> String {
        format!("{} {} {}", self.fen4(), self.half, self.full)
    }

    pub fn king(&self, c: Col) -> Option<Sq> {
        (0..64).find(|s| self.b[*s] == Some((c, Kind::K)))
    }

    pub fn count(&self, c: Col, k: Kind) -> usize {
        self.b.iter().filter(|x| **x == Some((c, k))).count()
    }

    pub fn men(&self) -> usize {
        self.b.iter().filter(|x| x.is_some()).count()
    }

    /// Is `sq` attacked by a piece of colour `by` on the current board?
    pub fn attacked(&self, sq: Sq, by: Col) -> bool {
        // a pawn of `by` attacks sq from one rank "behind" sq in its own direction of travel
        let pd = if by == Col::W { -1 } else { 1 };
        for df in [-1, 1] {
            if let Some(s) = off(sq, (df, pd)) {
                if self.b[s] == Some((by, Kind::P)) {
                    return true;
                }
            }
        }
        for d in KNIGHT_D {
            if let Some(s) = off(sq, d) {
                if self.b[s] == Some((by, Kind::N)) {
                    return true;
                }
            }
        }
        for d in KING_D {
            if let Some(s) = off(sq, d) {
                if self.b[s] == Some((by, Kind::K)) {
                    return true;
                }
            }
        }
        for (dirs, a) in [(ROOK_D, Kind::R), (BISHOP_D, Kind::B)] {
            for d in dirs {
                let mut cur = sq;
                while let Some(s) = off(cur, d) {
                    if let Some((c, k)) = self.b[s] {
                        if c == by && (k == a || k == Kind::Q) {
                            return true;
                        }
                        break;
                    }
                    cur = s;
                }
            }
        }
        false
    }

    /// The squares attacked by the single piece standing on `from` (by geometry, including
    /// squares occupied by own pieces; sliders stop at and include the first blocker).
    pub fn piece_attacks(&self, from: Sq) -> u64 {
        let Some((c, k)) = self.b[from] else { return 0 };
        let mut m = 0u64;
        match k {
            Kind::P => {
                let dr = if c == Col::W { 1 } else { -1 };
                for df in [-1, 1] {
                    if let Some(t) = off(from, (df, dr)) {
                        m |= 1 << t;
                    }
                }
            }
            Kind::N => {
                for d in KNIGHT_D {
                    if let Some(t) = off(from, d) {
                        m |= 1 << t;
                    }
                }
            }
            Kind::K => {
                for d in KING_D {
                    if let Some(t) = off(from, d) {
                        m |= 1 << t;
                    }
                }
            }
            _ => {
                let dirs: Vec<(i32, i32)> = match k {
                    Kind::R => ROOK_D.to_vec(),
                    Kind::B => BISHOP_D.to_vec(),
                    _ => ROOK_D.iter().chain(BISHOP_D.iter()).cloned().collect(),
                };
                for d in dirs {
                    let mut cur = from;
                    while let Some(t) = off(cur, d) {
                        m |= 1 << t;
                        if self.b[t].is_some() {
                            break;
                        }
                        cur = t;
                    }
                }
            }
        }
        m
    }

    /// Union of the attack sets of all pieces of `c` (optionally pawns only), minus the
    /// squares holding pieces of `c` (C10's definition).
    pub fn attack_set(&self, c: Col, pawns_only: bool) -> u64 {
        let mut m = 0u64;
        let mut own = 0u64;
        for s in 0..64 {
            if let Some((pc, k)) = self.b[s] {
                if pc == c {
                    own |= 1 << s;
                    if !pawns_only || k == Kind::P {
                        m |= self.piece_attacks(s);
                    }
                }
            }
        }
        m & !own
    }

    pub fn in_check(&self, c: Col) -> bool {
        self.king(c)
            .map(|k| self.attacked(k, c.opp()))
            .unwrap_or(false)
    }

    pub fn pseudo(&self) -> Vec<Mv> {
        let me = self.stm;
        let mut v = Vec::with_capacity(48);
        for from in 0..64 {
            let Some((c, k)) = self.b[from] else { continue };
            if c != me {
                continue;
            }
            let mk = |to: Sq, cap: Option<Kind>| Mv {
                from,
                to,
                kind: k,
                col: me,
                cap,
                promo: None,
                ep: false,
                castle: None,
                dbl: false,
            };
            match k {
                Kind::P => {
                    let dr = if me == Col::W { 1 } else { -1 };
                    let home = if me == Col::W { 1 } else { 6 };
                    let last = if me == Col::W { 7 } else { 0 };
                    let push = |v: &mut Vec<Mv>, m: Mv| {
                        if m.to / 8 == last {
                            for p in [Kind::Q, Kind::R, Kind::B, Kind::N] {
                                let mut x = m;
                                x.promo = Some(p);
                                v.push(x);
                            }
                        } else {
                            v.push(m);
                        }
                    };
                    if let Some(t) = off(from, (0, dr)) {
                        if self.b[t].is_none() {
                            push(&mut v, mk(t, None));
                            if from / 8 == home {
                                if let Some(t2) = off(t, (0, dr)) {
                                    if self.b[t2].is_none() {
                                        let mut m = mk(t2, None);
                                        m.dbl = true;
                                        v.push(m);
                                    }
                                }
                            }
                        }
                    }
                    for df in [-1, 1] {
                        if let Some(t) = off(from, (df, dr)) {
                            if let Some((oc, ok)) = self.b[t] {
                                if oc != me {
                                    push(&mut v, mk(t, Some(ok)));
                                }
                            } else if self.ep == Some(t) {
                                // the victim must really stand beside us
                                let vs = if me == Col::W { t - 8 } else { t + 8 };
                                if self.b[vs] == Some((me.opp(), Kind::P)) {
                                    let mut m = mk(t, Some(Kind::P));
                                    m.ep = true;
                                    v.push(m);
                                }
                            }
                        }
                    }
                }
                Kind::N | Kind::K => {
                    for d in if k == Kind::N { KNIGHT_D } else { KING_D } {
                        if let Some(t) = off(from, d) {
                            match self.b[t] {
                                None => v.push(mk(t, None)),
                                Some((oc, ok)) if oc != me => v.push(mk(t, Some(ok))),
                                _ => {}
                            }
                        }
                    }
                    if k == Kind::K {
                        let (home, ci) = if me == Col::W { (4usize, 0usize) } else { (60, 2) };
                        if from == home {
                            if self.cas[ci]
                                && self.b[home + 3] == Some((me, Kind::R))
                                && self.b[home + 1].is_none()
                                && self.b[home + 2].is_none()
                            {
                                let mut m = mk(home + 2, None);
                                m.castle = Some(0);
                                v.push(m);
                            }
                            if self.cas[ci + 1]
                                && self.b[home - 4] == Some((me, Kind::R))
                                && self.b[home - 1].is_none()
                                && self.b[home - 2].is_none()
                                && self.b[home - 3].is_none()
                            {
                                let mut m = mk(home - 2, None);
                                m.castle = Some(1);
                                v.push(m);
                            }
                        }
                    }
                }
                _ => {
                    let dirs: &[(i32, i32)] = match k {
                        Kind::R => &ROOK_D,
                        Kind::B => &BISHOP_D,
                        _ => &KING_D,
                    };
                    for d in dirs {
                        let mut cur = from;
                        while let Some(t) = off(cur, *d) {
                            match self.b[t] {
                                None => v.push(mk(t, None)),
                                Some((oc, ok)) => {
                                    if oc != me {
                                        v.push(mk(t, Some(ok)));
                                    }
                                    break;
                                }
                            }
                            cur = t;
                        }
                    }
                }
            }
        }
        v
    }

    pub fn apply(&self, m: &Mv) -> Pos {
        let mut n = self.clone();
        let me = self.stm;
        n.b[m.from] = None;
        if m.ep {
            let vs = if me == Col::W { m.to - 8 } else { m.to + 8 };
            n.b[vs] = None;
        }
        n.b[m.to] = Some((me, m.promo.unwrap_or(m.kind)));
        if let Some(side) = m.castle {
            let home = if me == Col::W { 4 } else { 60 };
            if side == 0 {
                n.b[home + 3] = None;
                n.b[home + 1] = Some((me, Kind::R));
            } else {
                n.b[home - 4] = None;
                n.b[home - 1] = Some((me, Kind::R));
            }
        }
        if m.kind == Kind::K {
            let ci = if me == Col::W { 0 } else { 2 };
            n.cas[ci] = false;
            n.cas[ci + 1] = false;
        }
        // a rook leaving its corner, or anything capturing on a corner, ends that right
        for (i, sq) in [(0usize, 7usize), (1, 0), (2, 63), (3, 56)] {
            if m.from == sq || m.to == sq {
                n.cas[i] = false;
            }
        }
        n.ep = if m.dbl { Some((m.from + m.to) / 2) } else { None };
        n.half = if m.kind == Kind::P || m.cap.is_some() { 0 } else { self.half + 1 };
        n.full = if me == Col::B { self.full + 1 } else { self.full };
        n.stm = me.opp();
        n
    }

    /// Is this pseudo-legal move legal (castling path, own king safe afterwards)?
    pub fn is_legal_pseudo(&self, m: &Mv) -> bool {
        let me = self.stm;
        if let Some(side) = m.castle {
            let step: i32 = if side == 0 { 1 } else { -1 };
            if (0..3).any(|i| self.attacked((m.from as i32 + step * i) as usize, me.opp())) {
                return false;
            }
        }
        !self.apply(m).in_check(me)
    }

    pub fn legal(&self) -> Vec<(Mv, Pos)> {
        let me = self.stm;
        let mut out = Vec::with_capacity(40);
        for m in self.pseudo() {
            if let Some(side) = m.castle {
                let step: i32 = if side == 0 { 1 } else { -1 };
                if (0..3).any(|i| self.attacked((m.from as i32 + step * i) as usize, me.opp())) {
                    continue;
                }
            }
            let n = self.apply(&m);
            if !n.in_check(me) {
                out.push((m, n));
            }
        }
        out
    }

    pub fn legal_moves(&self) -> Vec<Mv> {
        self.legal().into_iter().map(|x| x.0).collect()
    }

    pub fn has_legal_move(&self) -> bool {
        let me = self.stm;
        for m in self.pseudo() {
            if let Some(side) = m.castle {
                let step: i32 = if side == 0 { 1 } else { -1 };
                if (0..3).any(|i| self.attacked((m.from as i32 + step * i) as usize, me.opp())) {
                    continue;
                }
            }
            if !self.apply(&m).in_check(me) {
                return true;
            }
        }
        false
    }

    pub fn status(&self) -> Status {
        if self.has_legal_move() {
            Status::Normal
        } else if self.in_check(self.stm) {
            Status::Checkmate
        } else {
            Status::Stalemate
        }
    }

    pub fn perft(&self, d: usize) -> u64 {
        if d == 0 {
            return 1;
        }
        let l = self.legal();
        if d == 1 {
            return l.len() as u64;
        }
        l.iter().map(|(_, n)| n.perft(d - 1)).sum()
    }

    /// A legal chess position in the sense of C01's quantifier.
    pub fn is_legal_position(&self) -> bool {
        if self.count(Col::W, Kind::K) != 1 || self.count(Col::B, Kind::K) != 1 {
            return false;
        }
        for f in 0..8 {
            for r in [0, 7] {
                if matches!(self.b[r * 8 + f], Some((_, Kind::P))) {
                    return false;
                }
            }
        }
        if self.in_check(self.stm.opp()) {
            return false;
        }
        let need = [
            (0, 4, 7, Col::W),
            (1, 4, 0, Col::W),
            (2, 60, 63, Col::B),
            (3, 60, 56, Col::B),
        ];
        for (i, k, r, c) in need {
            if self.cas[i] && (self.b[k] != Some((c, Kind::K)) || self.b[r] != Some((c, Kind::R))) {
                return false;
            }
        }
        if let Some(e) = self.ep {
            // target behind a pawn of the side that just moved, which could just have
            // double-stepped: origin and target squares empty now
            let (rank, pawn_sq, orig) = if self.stm == Col::W {
                (5, e.wrapping_sub(8), e + 8)
            } else {
                (2, e + 8, e.wrapping_sub(8))
            };
            if e / 8 != rank {
                return false;
            }
            if self.b[pawn_sq] != Some((self.stm.opp(), Kind::P)) {
                return false;
            }
            if self.b[e].is_some() || self.b[orig].is_some() {
                return false;
            }
        }
        true
    }

    /// Flip ranks, swap colours, side to move, castling rights and en-passant square.
    pub fn mirror(&self) -> Pos {
        let mut n = Pos::empty(self.stm.opp());
        for s in 0..64 {
            if let Some((c, k)) = self.b[s] {
                n.b[(7 - s / 8) * 8 + s % 8] = Some((c.opp(), k));
            }
        }
        n.cas = [self.cas[2], self.cas[3], self.cas[0], self.cas[1]];
        n.ep = self.ep.map(|e| (7 - e / 8) * 8 + e % 8);
        n.half = self.half;
        n.full = self.full;
        n
    }

    /// Is an en-passant capture *legally* available?
    pub fn ep_capture_legal(&self) -> bool {
        self.ep.is_some() && self.legal_moves().iter().any(|m| m.ep)
    }

    /// Is an en-passant capture pseudo-legally available (a pawn of the side to move attacks
    /// the target square)?
    pub fn ep_capture_pseudo(&self) -> bool {
        self.ep.is_some() && self.pseudo().iter().any(|m| m.ep)
    }

    /// Material imbalance in half-pawn units.
    pub fn imbalance2(&self) -> i32 {
        let mut w = 0;
        let mut b = 0;
        for x in self.b.iter().flatten() {
            if x.0 == Col::W {
                w += x.1.worth2()
            } else {
                b += x.1.worth2()
            }
        }
        (w - b).abs()
    }
}

pub const PERFT_SUITE: [(&str, [u64; 4]); 6] = [
    (
        "rnbqkbnr/pppppppp/8/8/8/8/PPPPPPPP/RNBQKBNR w KQkq - 0 1",
        [20, 400, 8902, 197281],
    ),
    (
        "r3k2r/p1ppqpb1/bn2pnp1/3PN3/1p2P3/2N2Q1p/PPPBBPPP/R3K2R w KQkq - 0 1",
        [48, 2039, 97862, 4085603],
    ),
    (
        "8/2p5/3p4/KP5r/1R3p1k/8/4P1P1/8 w - - 0 1",
        [14, 191, 2812, 43238],
    ),
    (
        "r3k2r/Pppp1ppp/1b3nbN/nP6/BBP1P3/q4N2/Pp1P2PP/R2Q1RK1 w kq - 0 1",
        [6, 264, 9467, 422333],
    ),
    (
        "rnbq1k1r/pp1Pbppp/2p5/8/2B5/8/PPP1NnPP/RNBQK2R w KQ - 1 8",
        [44, 1486, 62379, 2103487],
    ),
    (
        "r4rk1/1pp1qppp/p1np1n2/2b1p1B1/2B1P1b1/P1NP1N2/1PP1QPPP/R4RK1 w - - 0 10",
        [46, 2079, 89890, 3894594],
    ),
];

/// Anchors the oracle to published perft counts. Err(..) means the harness is broken (exit 2).
pub fn self_test(depth: usize) -> Result<(), String> {
    for (fen, counts) in PERFT_SUITE.iter() {
        let p = Pos::from_fen(fen).ok_or_else(|| format!("oracle cannot read {}", fen))?;
        if p.fen() != *fen {
            return Err(format!("oracle FEN round trip differs for {}", fen));
        }
        for d in 1..=depth.min(4) {
            let n = p.perft(d);
            if n != counts[d - 1] {
                return Err(format!(
                    "oracle perft({}) of {} = {} but the published count is {}",
                    d,
                    fen,
                    n,
                    counts[d - 1]
                ));
            }
        }
    }
    Ok(())
}
