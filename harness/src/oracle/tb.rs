//! Exact game-theoretic values for K v K and K+X v K (X = Q, R, B, N, P of White; Black's
//! extra piece by mirroring): win / draw / loss and distance to mate in plies under optimal
//! play, built at start-up from the rules oracle by backward induction over all positions.

use super::rules::{Col, Kind, Pos};
use std::sync::Mutex;

const FAMILIES: [Option<Kind>; 6] = [None, Some(Kind::Q), Some(Kind::R), Some(Kind::B), Some(Kind::N), Some(Kind::P)];
const FAM_SIZE: usize = 2 * 64 * 64 * 64;

const ILLEGAL: i16 = i16::MIN;
const UNKNOWN: i16 = i16::MAX;

#[derive(Clone, Copy, Debug, PartialEq, Eq)]
pub enum Wdl {
    /// side to move mates in n plies (n odd)
    Win(u16),
    /// side to move is mated in n plies (n even; 0 = checkmated now)
    Loss(u16),
    Draw,
}

pub struct Tb {
    val: Vec<i16>,
    pub max_win: u16,
}

fn family_of(k: Option<Kind>) -> usize {
    FAMILIES.iter().position(|f| *f == k).unwrap()
}

/// index of a position whose only extra piece (if any) is White's
fn index_of(p: &Pos) -> Option<usize> {
    let mut wk = None;
    let mut bk = None;
    let mut x: Option<(usize, Kind)> = None;
    for s in 0..64 {
        match p.b[s] {
            None => {}
            Some((Col::W, Kind::K)) => wk = Some(s),
            Some((Col::B, Kind::K)) => bk = Some(s),
            Some((Col::W, k)) => {
                if x.is_some() {
                    return None;
                }
                x = Some((s, k));
            }
            Some((Col::B, _)) => return None,
        }
    }
    let (wk, bk) = (wk?, bk?);
    let fam = family_of(x.map(|x| x.1));
    let xs = x.map(|x| x.0).unwrap_or(0);
    let stm = if p.stm == Col::W { 0 } else { 1 };
    Some(fam * FAM_SIZE + ((stm * 64 + wk) * 64 + bk) * 64 + xs)
}

fn pos_of(i: usize) -> Option<Pos> {
    let fam = i / FAM_SIZE;
    let r = i % FAM_SIZE;
    let xs = r % 64;
    let bk = (r / 64) % 64;
    let wk = (r / 4096) % 64;
    let stm = if r / 262144 == 0 { Col::W } else { Col::B };
    if wk == bk {
        return None;
    }
    let mut p = Pos::empty(stm);
    p.b[wk] = Some((Col::W, Kind::K));
    p.b[bk] = Some((Col::B, Kind::K));
    match FAMILIES[fam] {
        None => {
            if xs != 0 {
                return None;
            }
        }
        Some(k) => {
            if xs == wk || xs == bk {
                return None;
            }
            if k == Kind::P && (xs / 8 == 0 || xs / 8 == 7) {
                return None;
            }
            p.b[xs] = Some((Col::W, k));
        }
    }
    if !p.is_legal_position() {
        return None;
    }
    Some(p)
}

impl Tb {
    pub fn build(threads: usize) -> Tb {
        let n = FAMILIES.len() * FAM_SIZE;
        let threads = threads.max(1);
        // successor lists
        let chunk = (n + threads - 1) / threads;
        let parts: Mutex<Vec<(usize, Vec<i16>, Vec<u32>, Vec<u32>)>> = Mutex::new(vec![]);
        std::thread::scope(|sc| {
            for t in 0..threads {
                let parts = &parts;
                sc.spawn(move || {
                    let lo = t * chunk;
                    let hi = ((t + 1) * chunk).min(n);
                    let mut val = vec![ILLEGAL; hi.saturating_sub(lo)];
                    let mut off: Vec<u32> = Vec::with_capacity(val.len() + 1);
                    let mut succ: Vec<u32> = vec![];
                    for i in lo..hi {
                        off.push(succ.len() as u32);
                        let Some(p) = pos_of(i) else { continue };
                        let legal = p.legal();
                        if legal.is_empty() {
                            val[i - lo] = if p.in_check(p.stm) { -1 } else { 0 };
                            continue;
                        }
                        val[i - lo] = UNKNOWN;
                        for (_, s) in legal.iter() {
                            // a captured piece leads to K v K, a promotion to another family
                            let j = index_of(s).expect("successor outside the families");
                            succ.push(j as u32);
                        }
                    }
                    off.push(succ.len() as u32);
                    parts.lock().unwrap().push((lo, val, off, succ));
                });
            }
        });
        let mut parts = parts.into_inner().unwrap();
        parts.sort_by_key(|p| p.0);
        let mut val: Vec<i16> = Vec::with_capacity(n);
        let mut off: Vec<u64> = Vec::with_capacity(n + 1);
        let mut succ: Vec<u32> = vec![];
        for (_, v, o, s) in parts {
            let base = succ.len() as u64;
            val.extend(v);
            off.extend(o[..o.len() - 1].iter().map(|x| *x as u64 + base));
            succ.extend(s);
        }
        off.push(succ.len() as u64);
        // backward induction by distance
        let mut d: i16 = 1;
        let mut max_win = 0u16;
        loop {
            let updates: Mutex<Vec<(u32, i16)>> = Mutex::new(vec![]);
            std::thread::scope(|sc| {
                for t in 0..threads {
                    let (val, off, succ, updates) = (&val, &off, &succ, &updates);
                    sc.spawn(move || {
                        let lo = t * chunk;
                        let hi = ((t + 1) * chunk).min(n);
                        let mut mine = vec![];
                        for i in lo..hi {
                            if val[i] != UNKNOWN {
                                continue;
                            }
                            let ss = &succ[off[i] as usize..off[i + 1] as usize];
                            if d % 2 == 1 {
                                // win in d: some successor is lost in d-1 for the opponent
                                if ss.iter().any(|j| val[*j as usize] == -d) {
                                    mine.push((i as u32, d));
                                }
                            } else {
                                // loss in d: every successor is a win for the opponent, the
                                // longest of them in d-1
                                let mut all = true;
                                let mut mx = 0;
                                for j in ss {
                                    let v = val[*j as usize];
                                    if v > 0 && v != UNKNOWN && v < d {
                                        mx = mx.max(v);
                                    } else {
                                        all = false;
                                        break;
                                    }
                                }
                                if all && mx == d - 1 {
                                    mine.push((i as u32, -(d + 1)));
                                }
                            }
                        }
                        updates.lock().unwrap().extend(mine);
                    });
                }
            });
            let ups = updates.into_inner().unwrap();
            // a pass that finds nothing at distance d leaves nothing to find at d+1 either
            if ups.is_empty() {
                break;
            }
            for (i, v) in ups {
                val[i as usize] = v;
                if v > 0 {
                    max_win = max_win.max(v as u16);
                }
            }
            d += 1;
            if d > 300 {
                break;
            }
        }
        for v in val.iter_mut() {
            if *v == UNKNOWN {
                *v = 0;
            }
        }
        Tb { val, max_win }
    }

    fn decode(v: i16) -> Option<Wdl> {
        match v {
            ILLEGAL => None,
            0 => Some(Wdl::Draw),
            v if v > 0 => Some(Wdl::Win(v as u16)),
            v => Some(Wdl::Loss((-v - 1) as u16)),
        }
    }

    /// Value for the side to move; None if the position is outside the families.
    pub fn probe(&self, p: &Pos) -> Option<Wdl> {
        if p.men() > 3 || !p.is_legal_position() {
            return None;
        }
        let black_has_piece = p.b.iter().flatten().any(|x| x.0 == Col::B && x.1 != Kind::K);
        let q = if black_has_piece { p.mirror() } else { p.clone() };
        let i = index_of(&q)?;
        Self::decode(self.val[i])
    }

    /// All positions (White has the extra piece) whose value for the side to move is exactly
    /// `want`, as (position, family kind).
    pub fn positions_with(&self, want: Wdl) -> Vec<Pos> {
        let code = match want {
            Wdl::Draw => 0,
            Wdl::Win(n) => n as i16,
            Wdl::Loss(n) => -(n as i16) - 1,
        };
        let mut v = vec![];
        for (i, x) in self.val.iter().enumerate() {
            if *x == code {
                if let Some(p) = pos_of(i) {
                    v.push(p);
                }
            }
        }
        v
    }

    pub fn family_size() -> usize {
        FAM_SIZE
    }

    pub fn position_at(i: usize) -> Option<Pos> {
        pos_of(i)
    }

    pub fn total() -> usize {
        FAMILIES.len() * FAM_SIZE
    }

    /// Known facts used as a self test: KQK and KRK are always won with White to move unless
    /// the piece hangs or it is stalemate; longest mates 10 moves (KQK) / 16 moves (KRK).
    pub fn self_test(&self) -> Result<(), String> {
        let longest = |k: Kind| -> u16 {
            let fam = family_of(Some(k));
            self.val[fam * FAM_SIZE..(fam + 1) * FAM_SIZE]
                .iter()
                .filter(|v| **v > 0 && **v != UNKNOWN)
                .map(|v| *v as u16)
                .max()
                .unwrap_or(0)
        };
        // published maxima (white to move): KQK mate in 10 moves = 19 plies, KRK mate in 16 = 31 plies,
        // KPK mate in 28 moves = 55 plies
        let (q, r, p) = (longest(Kind::Q), longest(Kind::R), longest(Kind::P));
        if q != 19 || r != 31 || p != 55 {
            return Err(format!("tablebase maxima KQK {} KRK {} KPK {} plies differ from the published 19 / 31 / 55", q, r, p));
        }
        for k in [Kind::B, Kind::N] {
            if longest(k) != 0 {
                return Err(format!("tablebase claims a forced mate with a lone {:?}", k));
            }
        }
        Ok(())
    }
}
