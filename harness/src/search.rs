//! Driving the real search through the cfg hooks: explicit worker count, seeded baton
//! scheduler, node-clock cancellation, small explicit search memories.

use crate::glue;
use crate::oracle::rules::{Mv, Pos};
use serde::{Deserialize, Serialize};
use std::cell::RefCell;
use std::panic::{catch_unwind, AssertUnwindSafe};
use weechess_engine::eval::Evaluator;
use weechess_engine::searcher::verif::{self, Sched, SyncReport};
use weechess_engine::searcher::{SearchArtifact, StatusEvent};

pub const POOL_THREADS: usize = 40;

thread_local! {
    static POOL: RefCell<Option<rayon::ThreadPool>> = RefCell::new(None);
}

fn new_pool() -> rayon::ThreadPool {
    rayon::ThreadPoolBuilder::new()
        .num_threads(POOL_THREADS)
        .stack_size(8 << 20)
        .build()
        .expect("cannot build rayon pool")
}

pub static TIMED_OUT: std::sync::atomic::AtomicBool = std::sync::atomic::AtomicBool::new(false);

/// A search whose node counter has not moved for this long, and which has not returned, is
/// reported as stuck. A running search counts a node every microsecond or so; the only phases
/// without nodes (building the reported line, summing table usage) take microseconds. This is
/// the only wall-clock oracle on the synchronous path and exists for loops that search no
/// nodes, which the node clock cannot see. It has to be short: such loops can allocate fast.
pub fn stall_limit() -> std::time::Duration {
    std::time::Duration::from_secs(
        std::env::var("VERIF_SEARCH_STALL_S").ok().and_then(|s| s.parse().ok()).unwrap_or(10),
    )
}

/// Run `f` inside this harness thread's own rayon pool (scheduled workers block pool threads
/// at a barrier, so pools are not shared between harness threads). `progress` is polled while
/// waiting; None is returned when it has not changed for `stall_limit()` and `f` has not
/// finished: the pool with the stuck job is abandoned (leaked) and a fresh one is built for
/// the next call.
pub fn in_pool<R: Send + 'static>(f: impl FnOnce() -> R + Send + 'static, progress: impl Fn() -> u64) -> Option<R> {
    POOL.with(|p| {
        let mut p = p.borrow_mut();
        if p.is_none() {
            *p = Some(new_pool());
        }
        let (tx, rx) = std::sync::mpsc::channel();
        p.as_ref().unwrap().spawn(move || {
            let _ = tx.send(f());
        });
        let mut last = progress();
        let mut last_change = std::time::Instant::now();
        loop {
            match rx.recv_timeout(std::time::Duration::from_millis(100)) {
                Ok(r) => return Some(r),
                Err(std::sync::mpsc::RecvTimeoutError::Timeout) => {
                    let now = progress();
                    if now != last {
                        last = now;
                        last_change = std::time::Instant::now();
                    } else if last_change.elapsed() > stall_limit() {
                        break;
                    }
                }
                Err(std::sync::mpsc::RecvTimeoutError::Disconnected) => break,
            }
        }
        // the job is stuck (or died without sending): never reuse this pool
        TIMED_OUT.store(true, std::sync::atomic::Ordering::SeqCst);
        if let Some(old) = p.take() {
            std::mem::forget(old);
        }
        None
    })
}

#[derive(Debug, Clone, Copy, Serialize, Deserialize, PartialEq, Eq, Hash)]
pub struct Geometry {
    pub tables: u16,
    pub buckets: u16,
}

pub const GEOMETRIES: [Geometry; 6] = [
    Geometry { tables: 8, buckets: 1024 },
    Geometry { tables: 8, buckets: 1024 },
    Geometry { tables: 1, buckets: 1 },
    Geometry { tables: 2, buckets: 3 },
    Geometry { tables: 8, buckets: 64 },
    Geometry { tables: 128, buckets: 128 },
];

#[derive(Debug, Clone, Serialize, Deserialize, PartialEq, Eq, Hash)]
pub struct SearchSpec {
    pub depth: Option<u8>,
    pub seed: u64,
    pub workers: u8,
    /// Some = run under the baton scheduler with this seed
    pub sched_seed: Option<u64>,
    /// raise the cancellation flag when the global node count reaches this
    pub cancel_after: Option<u32>,
}

#[derive(Debug, Clone)]
pub struct Best {
    pub line: Vec<Mv>,
    pub eval: i32,
}

pub struct SearchOut {
    pub best: Vec<Best>,
    /// (depth, nodes, saturation)
    pub progress: Vec<(u32, usize, f32)>,
    pub warnings: usize,
    pub nodes_total: usize,
    pub nodes_after_cancel: usize,
    pub cancelled: bool,
    /// (yield points, switches, trace hash)
    pub sched: Option<(usize, usize, u64)>,
    pub panic: Option<String>,
    /// the order of all events, for determinism comparisons
    pub transcript: Vec<String>,
}

pub fn new_artifact(hasher_seed: u64, g: Geometry) -> SearchArtifact {
    verif::small_artifact(hasher_seed, g.tables as usize, g.buckets as usize)
}

/// Run one search. Returns the outcome and the artifact (None when the search panicked).
pub fn run(
    pos: &Pos,
    spec: &SearchSpec,
    artifact: SearchArtifact,
    overrun_cap: usize,
) -> (SearchOut, Option<SearchArtifact>) {
    let state = glue::state_direct(pos);
    let sched = spec.sched_seed.map(Sched::new);
    verif::set_scheduler(&artifact, sched.clone());
    let mut out = SearchOut {
        best: vec![],
        progress: vec![],
        warnings: 0,
        nodes_total: 0,
        nodes_after_cancel: 0,
        cancelled: false,
        sched: None,
        panic: None,
        transcript: vec![],
    };
    let workers = spec.workers.max(1) as usize;
    let depth = spec.depth.map(|d| d as usize);
    let cancel = spec.cancel_after.map(|c| c as usize);
    let seed = spec.seed;
    let probe = std::sync::Arc::new(verif::CancelProbe {
        cancel_at: std::sync::atomic::AtomicUsize::new(cancel.unwrap_or(usize::MAX)),
        overrun_cap: std::sync::atomic::AtomicUsize::new(overrun_cap),
        total: std::sync::atomic::AtomicUsize::new(0),
        after_cancel: std::sync::atomic::AtomicUsize::new(0),
    });
    let watched = probe.clone();
    let result: Option<Result<(SearchArtifact, SyncReport, Vec<StatusEvent>), String>> = in_pool(
        move || {
            let mut events: Vec<StatusEvent> = vec![];
            let r = catch_unwind(AssertUnwindSafe(|| {
                let evaluator = Evaluator::default();
                verif::analyze_sync_with_probe(
                    state,
                    &evaluator,
                    seed,
                    depth,
                    Some(artifact),
                    Some(workers),
                    probe,
                    &mut |e| events.push(e),
                )
            }));
            match r {
                Ok((a, rep)) => Ok((a, rep, events)),
                Err(p) => Err(crate::runner::panic_message(&p)),
            }
        },
        move || watched.total.load(std::sync::atomic::Ordering::Relaxed) as u64,
    );
    out.sched = sched.as_ref().map(|s| s.stats());
    let result = match result {
        Some(r) => r,
        None => Err(format!("VERIF_TIMEOUT: the search has not returned and searched no node for {:?}", stall_limit())),
    };
    match result {
        Ok((a, rep, events)) => {
            out.nodes_total = rep.nodes_total;
            out.nodes_after_cancel = rep.nodes_after_cancel;
            out.cancelled = rep.cancelled;
            for e in events {
                match e {
                    StatusEvent::BestMove { line, evaluation } => {
                        let l: Vec<Mv> = line.iter().map(glue::read_move).collect();
                        out.transcript.push(format!(
                            "best {} {}",
                            i32::from(evaluation),
                            l.iter().map(|m| m.lan()).collect::<Vec<_>>().join(" ")
                        ));
                        out.best.push(Best { line: l, eval: i32::from(evaluation) });
                    }
                    StatusEvent::Progress { depth, nodes_searched, transposition_saturation } => {
                        out.transcript.push(format!("progress {} {} {:.6}", depth, nodes_searched, transposition_saturation));
                        out.progress.push((depth, nodes_searched, transposition_saturation));
                    }
                    StatusEvent::Warning { .. } => {
                        out.transcript.push("warning".to_string());
                        out.warnings += 1;
                    }
                }
            }
            verif::set_scheduler(&a, None);
            (out, Some(a))
        }
        Err(msg) => {
            out.panic = Some(msg);
            (out, None)
        }
    }
}

/// Walk a reported line through the oracle: Err describes the first illegal move.
pub fn check_line(root: &Pos, line: &[Mv]) -> Result<(), String> {
    if line.is_empty() {
        return Err("the reported line is empty".to_string());
    }
    let mut cur = root.clone();
    for (i, m) in line.iter().enumerate() {
        let legal = cur.legal();
        match legal.iter().find(|(x, _)| x == m) {
            Some((_, n)) => cur = n.clone(),
            None => {
                return Err(format!(
                    "move {} of the reported line ({} = {:?}) is not legal in '{}' (line: {})",
                    i + 1,
                    m.lan(),
                    m,
                    cur.fen(),
                    line.iter().map(|m| m.lan()).collect::<Vec<_>>().join(" ")
                ));
            }
        }
    }
    Ok(())
}

pub const POS_INF: i32 = 10_000;
