//! weechess <-> oracle conversions, through weechess's public API only.
//! States are never compared with `==` (Board derives PartialEq over lazily filled caches).

use crate::oracle::rules::{Col, Kind, Mv, Pos};
use weechess_core::{
    notation::{into_notation, try_from_notation, Fen},
    utils::ArrayMap,
    Board, CastleRights, Clock, Color, Move, Piece, PieceIndex, Side, Square, State,
};

pub fn w_col(c: Color) -> Col {
    match c {
        Color::White => Col::W,
        Color::Black => Col::B,
    }
}

pub fn o_col(c: Col) -> Color {
    match c {
        Col::W => Color::White,
        Col::B => Color::Black,
    }
}

pub fn w_kind(p: Piece) -> Option<Kind> {
    match p {
        Piece::None => None,
        Piece::Pawn => Some(Kind::P),
        Piece::Knight => Some(Kind::N),
        Piece::Bishop => Some(Kind::B),
        Piece::Rook => Some(Kind::R),
        Piece::Queen => Some(Kind::Q),
        Piece::King => Some(Kind::K),
    }
}

pub fn o_kind(k: Kind) -> Piece {
    match k {
        Kind::P => Piece::Pawn,
        Kind::N => Piece::Knight,
        Kind::B => Piece::Bishop,
        Kind::R => Piece::Rook,
        Kind::Q => Piece::Queen,
        Kind::K => Piece::King,
    }
}

pub fn w_sq(s: Square) -> usize {
    let v: u8 = s.into();
    v as usize
}

pub fn o_sq(s: usize) -> Square {
    Square::try_from(s as u8).unwrap()
}

/// Read every attribute of a weechess move through its accessors.
pub fn read_move(m: &Move) -> Mv {
    Mv {
        from: w_sq(m.origin()),
        to: w_sq(m.destination()),
        kind: w_kind(m.piece()).expect("move without piece"),
        col: w_col(m.color()),
        cap: m.capture().and_then(w_kind),
        promo: m.promotion().and_then(w_kind),
        ep: m.is_en_passant(),
        castle: match m.castle_side() {
            Some(Side::King) => Some(0),
            Some(Side::Queen) => Some(1),
            None => None,
        },
        dbl: m.is_double_pawn(),
    }
}

/// Build the weechess move value the move generator would build for this oracle move.
pub fn make_move(m: &Mv) -> Move {
    let pi = PieceIndex::new(o_col(m.col), o_kind(m.kind));
    let (f, t) = (o_sq(m.from), o_sq(m.to));
    if let Some(side) = m.castle {
        return Move::by_castling(
            o_col(m.col),
            if side == 0 { Side::King } else { Side::Queen },
        );
    }
    if m.ep {
        return Move::by_en_passant(pi, f, t);
    }
    match (m.cap, m.promo) {
        (None, None) => Move::by_moving(pi, f, t),
        (Some(c), None) => Move::by_capturing(pi, f, t, o_kind(c)),
        (None, Some(p)) => Move::by_promoting(pi, f, t, o_kind(p)),
        (Some(c), Some(p)) => Move::by_capture_promoting(pi, f, t, o_kind(c), o_kind(p)),
    }
}

/// Read a weechess state field by field through accessors.
pub fn read_state(s: &State) -> Pos {
    let mut p = Pos::empty(w_col(s.turn_to_move()));
    for sq in 0..64 {
        if let Some(pi) = s.board().piece_at(o_sq(sq)) {
            if let Some(k) = w_kind(pi.piece()) {
                p.b[sq] = Some((w_col(pi.color()), k));
            }
        }
    }
    let w = s.castle_rights(Color::White);
    let b = s.castle_rights(Color::Black);
    p.cas = [w.kingside, w.queenside, b.kingside, b.queenside];
    p.ep = s.en_passant_target().map(w_sq);
    p.half = s.clock().halfmove_clock as u64;
    p.full = s.clock().fullmove_number as u64;
    p
}

/// Hand an oracle position to weechess through its FEN parser.
pub fn state_from_pos(p: &Pos) -> State {
    try_from_notation::<State, Fen>(&p.fen())
        .unwrap_or_else(|_| panic!("weechess rejects canonical FEN {}", p.fen()))
}

pub fn state_from_fen(f: &str) -> Option<State> {
    try_from_notation::<State, Fen>(f).ok()
}

/// Hand an oracle position (possibly an arbitrary placement) to weechess through
/// `Board::from(&ArrayMap)` / `State::new`.
pub fn state_direct(p: &Pos) -> State {
    let mut map = Board::empty_map();
    for sq in 0..64 {
        if let Some((c, k)) = p.b[sq] {
            map[o_sq(sq)] = PieceIndex::new(o_col(c), o_kind(k));
        }
    }
    let board = Board::from(&map);
    let mut rights: ArrayMap<Color, CastleRights> = ArrayMap::filled(CastleRights::NONE);
    rights[Color::White] = CastleRights {
        kingside: p.cas[0],
        queenside: p.cas[1],
    };
    rights[Color::Black] = CastleRights {
        kingside: p.cas[2],
        queenside: p.cas[3],
    };
    State::new(
        board,
        o_col(p.stm),
        rights,
        p.ep.map(o_sq),
        Clock {
            halfmove_clock: p.half as _, // whatever integer type the field has
            fullmove_number: p.full as _,
        },
    )
}

pub fn fen_of(s: &State) -> String {
    into_notation::<_, Fen>(s).to_string()
}

pub fn bb(b: weechess_core::BitBoard) -> u64 {
    b.into()
}
