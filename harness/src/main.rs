//! vcheck <ID> quick|thorough            run the checks of one property
//! vcheck <ID> --replay <file>           re-run exactly one saved case (strict)
//!
//! exit 0 = held on everything explored, 1 = VIOLATION printed, 2 = the harness could not run.

use vharness::{checks, runner};

use runner::{Ctx, Tier};
use serde_json::Value;

fn install_quiet_panic_hook() {
    let verbose = std::env::var("VERIF_VERBOSE").is_ok();
    let default = std::panic::take_hook();
    std::panic::set_hook(Box::new(move |info| {
        if verbose {
            default(info);
        }
    }));
}

fn usage() -> ! {
    eprintln!("usage: vcheck <ID> quick|thorough | vcheck <ID> --replay <file>");
    std::process::exit(2);
}

fn main() {
    let args: Vec<String> = std::env::args().collect();
    if args.len() < 3 {
        usage();
    }
    let id = args[1].to_uppercase();
    let seed: u64 = std::env::var("VERIF_SEED")
        .ok()
        .and_then(|s| s.trim().parse::<i128>().ok())
        .map(|v| v as u64)
        .unwrap_or(0);
    install_quiet_panic_hook();

    // harness watchdog: a stuck harness is exit 2, never a violation
    let limit_s: u64 = std::env::var("VERIF_WATCHDOG_S")
        .ok()
        .and_then(|s| s.parse().ok())
        .unwrap_or(if args[2] == "thorough" { 8 * 3600 } else { 40 * 60 });
    std::thread::spawn(move || {
        std::thread::sleep(std::time::Duration::from_secs(limit_s));
        eprintln!("HARNESS: watchdog expired after {} s", limit_s);
        std::process::exit(2);
    });

    // memory guard: a runaway allocation in the code under test must not take the machine down
    std::thread::spawn(|| loop {
        std::thread::sleep(std::time::Duration::from_secs(2));
        if let Ok(statm) = std::fs::read_to_string("/proc/self/statm") {
            let rss_pages: u64 = statm.split(' ').nth(1).and_then(|x| x.parse().ok()).unwrap_or(0);
            if rss_pages * 4096 > 36 << 30 {
                eprintln!("HARNESS: resident memory above 36 GiB, giving up");
                std::process::exit(2);
            }
        }
    });

    if args[2] == "--transcript" {
        // second process of a C19 cross-process pair
        std::process::exit(checks::c19::print_transcript(args.get(3).map(|s| s.as_str()).unwrap_or("")));
    }

    if args[2] == "--deep-child" {
        // child process of C04's deep_search_process
        std::process::exit(checks::c04::deep_child(args.get(3).map(|s| s.as_str()).unwrap_or("")));
    }

    if args[2] == "--replay" {
        if args.len() < 4 {
            usage();
        }
        let ctx = Ctx::new(&id, Tier::Quick, seed, true);
        let code = replay_file(&ctx, &args[3], true);
        std::process::exit(code);
    }

    let tier = match args[2].as_str() {
        "quick" => Tier::Quick,
        "thorough" => Tier::Thorough,
        _ => usage(),
    };
    let ctx = Ctx::new(&id, tier, seed, false);
    if args.get(3).map(|s| s.as_str()) == Some("--plain-child") {
        std::process::exit(checks::c14::plain_child(&ctx));
    }
    let Some(plan) = checks::plan(&ctx) else {
        eprintln!("unknown property {}", id);
        std::process::exit(2);
    };
    if let Err(e) = (plan.self_test)(&ctx) {
        eprintln!("HARNESS: self test failed: {}", e);
        std::process::exit(2);
    }

    // replay tier: every saved regression input first
    let dir = format!("{}/corpus/{}", runner::VERIF_DIR, id);
    let mut corpus_files: Vec<String> = std::fs::read_dir(&dir)
        .map(|rd| {
            rd.filter_map(|e| e.ok())
                .map(|e| e.path().to_string_lossy().to_string())
                .filter(|p| p.ends_with(".json"))
                .collect()
        })
        .unwrap_or_default();
    corpus_files.sort();
    let mut replayed = 0;
    for f in corpus_files.iter() {
        let Ok(txt) = std::fs::read_to_string(f) else { continue };
        let Ok(v) = serde_json::from_str::<Value>(&txt) else {
            eprintln!("HARNESS: corpus file {} is not JSON", f);
            std::process::exit(2);
        };
        let check = v["check"].as_str().unwrap_or("").to_string();
        let Some(p) = plan.props.iter().find(|p| p.0.name() == check) else {
            eprintln!("HARNESS: corpus file {} names unknown check {}", f, check);
            std::process::exit(2);
        };
        replayed += 1;
        if let Err(msg) = p.0.replay(&ctx, &v["case"]) {
            ctx.violation_at(&check, v["case"].clone(), format!("corpus: {}", msg), f);
        }
    }
    ctx.extra("corpus_replayed", serde_json::json!(replayed));

    // development aid: VERIF_ONLY=<check name>[,<name>...] runs only those parts (no evidence is written)
    let only: Option<Vec<String>> = std::env::var("VERIF_ONLY").ok().map(|s| s.split(',').map(|x| x.to_string()).collect());
    for (prop, cases) in plan.props.iter() {
        if let Some(o) = &only {
            if !o.iter().any(|n| n == prop.name()) {
                continue;
            }
        }
        prop.run(&ctx, *cases);
    }
    if let Some(post) = plan.post {
        post(&ctx);
    }
    let code = ctx.finish(plan.rule, plan.assumptions);
    std::process::exit(code);
}

fn replay_file(ctx: &Ctx, path: &str, print: bool) -> i32 {
    let txt = match std::fs::read(path) {
        Ok(t) => String::from_utf8_lossy(&t).to_string(),
        Err(e) => {
            eprintln!("cannot read {}: {}", path, e);
            return 2;
        }
    };
    let base = std::path::Path::new(path).file_name().map(|s| s.to_string_lossy().to_string()).unwrap_or_default();
    let v: Value = if let Some(rest) = base.strip_prefix("fuzz-") {
        // a raw libFuzzer artifact: fuzz-<target>-crash-<hash>
        let target = vharness::fuzz_entry::TARGETS.iter().map(|t| t.0).find(|t| rest.starts_with(&format!("{}-", t))).unwrap_or("");
        serde_json::json!({"check": target, "case": {"artifact": path}})
    } else {
        match serde_json::from_str(&txt) {
            Ok(v) => v,
            Err(e) => {
                eprintln!("{} is not JSON: {}", path, e);
                return 2;
            }
        }
    };
    let Some(plan) = checks::plan(ctx) else {
        eprintln!("unknown property {}", ctx.id);
        return 2;
    };
    if let Err(e) = (plan.self_test)(ctx) {
        eprintln!("HARNESS: self test failed: {}", e);
        return 2;
    }
    let check = v["check"].as_str().unwrap_or("");
    let Some(p) = plan.props.iter().find(|p| p.0.name() == check) else {
        eprintln!("replay file names unknown check {}", check);
        return 2;
    };
    match p.0.replay(ctx, &v["case"]) {
        Ok(()) => {
            if print {
                println!("[{}] replay of {} passes", ctx.id, path);
            }
            0
        }
        Err(msg) => {
            println!("  violation in {}: {}", check, msg);
            println!("VIOLATION property={} replay={}", ctx.id, path);
            1
        }
    }
}
