//! Runs a libFuzzer campaign (cargo-fuzz crate in /verif/fuzz) as one part of a thorough
//! check: fixed number of runs, seeded corpus, the semantic oracle is inside the target.

use crate::runner::{splitmix, Ctx, DynProp, Local, VERIF_DIR};
use serde_json::{json, Value};
use std::process::Command;

pub struct LibFuzzer {
    pub target: &'static str,
    pub max_len: usize,
    /// golden inputs added to the random seed files
    pub golden: &'static [&'static [u8]],
}

fn work_dir(target: &str) -> String {
    format!("{}/.target/fuzz-work/{}", VERIF_DIR, target)
}

impl DynProp for LibFuzzer {
    fn name(&self) -> &'static str {
        self.target
    }
    fn run(&self, ctx: &Ctx, runs: u64) {
        if runs == 0 {
            return;
        }
        let t0 = std::time::Instant::now();
        // fresh corpus: golden files + random files of full length (libFuzzer ramps length slowly)
        let corpus = work_dir(self.target);
        let _ = std::fs::remove_dir_all(&corpus);
        std::fs::create_dir_all(&corpus).expect("cannot create fuzz corpus dir");
        for (i, g) in self.golden.iter().enumerate() {
            std::fs::write(format!("{}/golden-{}", corpus, i), g).unwrap();
        }
        let mut x = ctx.seed ^ crate::runner::h64(self.target);
        for i in 0..24 {
            let len = 16 + (splitmix(&mut x) as usize % self.max_len.max(17).saturating_sub(16));
            let bytes: Vec<u8> = (0..len).map(|_| splitmix(&mut x) as u8).collect();
            std::fs::write(format!("{}/random-{}", corpus, i), bytes).unwrap();
        }
        let replays = format!("{}/replays", VERIF_DIR);
        let _ = std::fs::create_dir_all(&replays);
        let prefix = format!("{}/fuzz-{}-", replays, self.target);
        let seed = (ctx.seed % 0x7fff_ffff).max(1); // 0 would mean "random" to libFuzzer
        let out = Command::new("cargo")
            .args(["+nightly", "fuzz", "run", "--fuzz-dir", &format!("{}/fuzz", VERIF_DIR), self.target, &corpus, "--"])
            .arg(format!("-runs={}", runs))
            .arg(format!("-seed={}", seed))
            .arg("-len_control=0")
            .arg(format!("-max_len={}", self.max_len))
            .arg(format!("-artifact_prefix={}", prefix))
            .arg("-print_final_stats=1")
            .env("RUSTFLAGS", "--cfg weechess_verif")
            .env("CARGO_NET_OFFLINE", "true")
            .env("CARGO_TERM_COLOR", "never")
            .output();
        let out = match out {
            Ok(o) => o,
            Err(e) => {
                eprintln!("HARNESS: cannot run cargo fuzz: {}", e);
                std::process::exit(2);
            }
        };
        let log = String::from_utf8_lossy(&out.stderr).to_string();
        let done = log
            .lines()
            .find_map(|l| l.strip_prefix("Done ").and_then(|r| r.split(' ').next()).and_then(|n| n.parse::<u64>().ok()));
        let stat = |key: &str| -> Option<u64> {
            log.lines().rev().find_map(|l| {
                let i = l.find(key)?;
                l[i + key.len()..].trim().split(|c: char| !c.is_ascii_digit()).next()?.parse().ok()
            })
        };
        // libFuzzer also writes units that were merely slow on a loaded machine ("slow-unit-") and units
        // that exceeded its memory limit ("oom-"): those say nothing about the property. Crashes
        // ("crash-") and units that ran into its timeout of 20 minutes ("timeout-": a reader that hangs) do.
        let written: Vec<String> = log
            .lines()
            .filter_map(|l| l.find("Test unit written to ").map(|i| l[i + "Test unit written to ".len()..].trim().to_string()))
            .collect();
        let is_verdict = |p: &String| {
            let name = p.rsplit('/').next().unwrap_or("");
            name.contains("-crash-") || name.contains("-timeout-")
        };
        let ignored: Vec<&String> = written.iter().filter(|p| !is_verdict(p)).collect();
        if !ignored.is_empty() {
            ctx.note(format!("{}: libFuzzer wrote {} slow-unit / oom artifacts (machine load), ignored", self.target, ignored.len()));
            for p in ignored.iter() {
                let _ = std::fs::remove_file(p);
            }
        }
        let artifact = written.iter().find(|p| is_verdict(p)).cloned();
        if let Some(path) = artifact {
            let msg = log
                .lines()
                .find(|l| l.contains("VERIF-FUZZ") || l.contains("panicked at"))
                .unwrap_or("the target crashed")
                .to_string();
            let detail = log.lines().skip_while(|l| !l.contains("panicked at")).take(4).collect::<Vec<_>>().join(" | ");
            ctx.violation_at(self.target, json!({"artifact": path}), format!("libFuzzer target {}: {} {}", self.target, msg, detail), &path);
        } else if !out.status.success() && ignored.is_empty() {
            eprintln!("HARNESS: cargo fuzz run {} failed without an artifact:\n{}", self.target, log.lines().rev().take(30).collect::<Vec<_>>().into_iter().rev().collect::<Vec<_>>().join("\n"));
            std::process::exit(2);
        }
        let executed = done.or_else(|| stat("stat::number_of_executed_units:")).unwrap_or(0);
        let mut loc = Local::new();
        loc.evals_n(executed);
        ctx.merge(self.target, loc);
        ctx.part(json!({
            "check": self.target,
            "engine": "libFuzzer (cargo-fuzz, ASan, debug assertions, overflow checks)",
            "runs_requested": runs,
            "runs_done": executed,
            "coverage_edges": stat("cov: "),
            "features": stat("ft: "),
            "final_corpus_units": stat("corp: "),
            "libfuzzer_seed": seed,
            "wall_s": t0.elapsed().as_secs_f64(),
            "note": "a libFuzzer campaign is only approximately a function of its seed; the saved input is the reproducible unit",
        }));
    }
    fn replay(&self, _: &Ctx, case: &Value) -> Result<(), String> {
        let path = case["artifact"].as_str().ok_or("no artifact path")?;
        let bytes = std::fs::read(path).map_err(|e| format!("cannot read {}: {}", path, e))?;
        crate::fuzz_entry::run(self.target, &bytes)
    }
}

pub const GOLDEN_TEXT: &[&[u8]] = &[
    b"rnbqkbnr/pppppppp/8/8/8/8/PPPPPPPP/RNBQKBNR w KQkq - 0 1",
    b"88888888888888888888888888888888/8/8/8/8/8/8/K1k5 w - - 0 1",
    b"r3k2r/p1ppqpb1/bn2pnp1/3PN3/1p2P3/2N2Q1p/PPPBBPPP/R3K2R w KQkq e3 12 345",
    b"Nbd7",
    b"exd8=Q+",
    b"O-O-O#",
    b"Qh4xe1",
];

pub fn target(name: &'static str) -> LibFuzzer {
    match name {
        "parsers_raw" => LibFuzzer { target: "parsers_raw", max_len: 200, golden: GOLDEN_TEXT },
        "parsers_grammar" => LibFuzzer { target: "parsers_grammar", max_len: 96, golden: &[] },
        "rules_diff" => LibFuzzer { target: "rules_diff", max_len: 121, golden: &[] },
        "notation_rt" => LibFuzzer { target: "notation_rt", max_len: 64, golden: &[] },
        _ => LibFuzzer { target: "tt_ops", max_len: 1300, golden: &[] },
    }
}
