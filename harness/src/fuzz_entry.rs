//! Entry points of the coverage-guided (libFuzzer) targets. Each decodes the raw bytes into
//! the same structured cases the proptest checks use and runs the same oracle; a violation
//! panics (libFuzzer stores the input as an artifact, `vcheck <ID> --replay <artifact>` re-runs it).

use crate::checks::{c01, c02, c11, c12, c14, c15};
use crate::gen::{self, BuildCase, PlayCase};
use crate::runner::{Ctx, Local, Prop, Tier};
use std::sync::OnceLock;

pub const TARGETS: &[(&str, &str)] = &[
    ("parsers_raw", "C14"),
    ("parsers_grammar", "C14"),
    ("rules_diff", "C01"),
    ("notation_rt", "C12"),
    ("tt_ops", "C15"),
];

fn ctx() -> &'static Ctx {
    static C: OnceLock<Ctx> = OnceLock::new();
    C.get_or_init(|| Ctx::new("FUZZ", Tier::Thorough, 0, true))
}

struct Cur<'a> {
    d: &'a [u8],
    i: usize,
}

impl<'a> Cur<'a> {
    fn u8(&mut self) -> u8 {
        let v = self.d.get(self.i).copied().unwrap_or(0);
        self.i += 1;
        v
    }
    fn u16(&mut self) -> u16 {
        self.u8() as u16 | (self.u8() as u16) << 8
    }
    fn u64(&mut self) -> u64 {
        (0..8).fold(0u64, |a, k| a | (self.u8() as u64) << (8 * k))
    }
    fn left(&self) -> usize {
        self.d.len().saturating_sub(self.i)
    }
}

fn build_case(c: &mut Cur, max_pieces: usize) -> BuildCase {
    let wk = c.u8() % 64;
    let bk = c.u8() % 64;
    let flags = c.u8();
    let castle = if flags & 1 == 1 { c.u8() % 16 } else { 0 };
    let ep = if flags & 2 == 2 { 1 + c.u8() % 24 } else { 0 };
    let n = (c.u8() as usize) % (max_pieces + 1);
    let pieces = (0..n).map(|_| (c.u8() % 10, c.u8() % 64)).collect();
    BuildCase { wk, bk, pieces, black_to_move: flags & 4 == 4, castle, ep, half: c.u8() % 100, full: 1 + c.u16() % 300 }
}

fn play_case(c: &mut Cur, max_plies: usize) -> PlayCase {
    let start = c.u8() as u16 % gen::START_FENS.len() as u16;
    let n = (c.left() / 2).min(max_plies);
    PlayCase { start, picks: (0..n).map(|_| c.u16()).collect() }
}

fn fail(target: &str, msg: String) -> ! {
    panic!("VERIF-FUZZ {}: {}", target, msg)
}

/// C14: arbitrary &str into both parsers must return (the checked build has overflow checks)
pub fn parsers_raw(data: &[u8]) {
    if let Ok(s) = std::str::from_utf8(data) {
        let _ = weechess_core::notation::try_from_notation::<weechess_core::State, weechess_core::notation::Fen>(s);
        let _ = weechess_core::notation::try_from_notation::<weechess_core::MoveQuery, weechess_core::notation::San>(s);
    }
}

/// C14: oracle-written FEN/SAN plus mutation choices
pub fn parsers_grammar(data: &[u8]) {
    let mut c = Cur { d: data, i: 0 };
    let b = build_case(&mut c, 20);
    let nm = (c.u8() % 5) as usize;
    let muts: Vec<c14::Mut> = (0..nm)
        .map(|_| match c.u8() % 12 {
            0 => c14::Mut::Delete(c.u16()),
            1 => c14::Mut::Duplicate(c.u16()),
            2 => c14::Mut::Insert(c.u16(), c.u8() % 16),
            3 => c14::Mut::SwapFields(c.u8() % 6, c.u8() % 6),
            4 => c14::Mut::DropField(c.u8() % 6),
            5 => c14::Mut::DupField(c.u8() % 6),
            6 => c14::Mut::DigitFlood(c.u16(), c.u8() % 10, 8 + c.u8() % 57),
            7 => c14::Mut::LongRank(c.u8() % 8, 2 + c.u8() % 38),
            8 => c14::Mut::DropRank(c.u8() % 8),
            9 => c14::Mut::AddRank(c.u8() % 8),
            10 => c14::Mut::Counter(c.u8() % 2, c.u8() % 12),
            _ => c14::Mut::Truncate(c.u16()),
        })
        .collect();
    let fen = c14::fen_text(&c14::FenInput::Mutated(b.clone(), muts.clone()));
    let _ = weechess_core::notation::try_from_notation::<weechess_core::State, weechess_core::notation::Fen>(&fen);
    let san = c14::san_text(&c14::SanInput::Mutated(b, c.u16(), c.u16(), muts));
    let _ = weechess_core::notation::try_from_notation::<weechess_core::MoveQuery, weechess_core::notation::San>(&san);
}

/// C01 + C02: a game from the adversarial corpus; move lists and all successors along it
pub fn rules_diff(data: &[u8]) {
    let mut c = Cur { d: data, i: 0 };
    let case = play_case(&mut c, 60);
    let played = gen::play(c01::starts(), &case);
    let mut loc = Local::new();
    for p in played.positions.iter() {
        let legal = p.legal();
        if let Err(m) = c01::compare_moves(p, &legal) {
            fail("rules_diff", m);
        }
        let state = crate::glue::state_direct(p);
        if let Err(m) = c02::check_all_successors(&state, p, &mut loc) {
            fail("rules_diff", m);
        }
    }
}

/// C11 + C12: a constructed position; FEN text round trip and all SAN spellings
pub fn notation_rt(data: &[u8]) {
    let mut c = Cur { d: data, i: 0 };
    let b = build_case(&mut c, 24);
    let mut loc = Local::new();
    let case = c11::TextRt { build: b.clone(), half: c.u16(), full: c.u16() };
    if let Err(m) = c11::TextRoundTrip.test(ctx(), &case, &mut loc) {
        fail("notation_rt", m);
    }
    if let Some(p) = gen::build(&b) {
        if let Err(m) = c12::check_position(&p, &mut loc) {
            fail("notation_rt", m);
        }
    }
}

/// C15: table geometry + op list against the reference model
pub fn tt_ops(data: &[u8]) {
    let mut c = Cur { d: data, i: 0 };
    let tables = c.u8() % 5;
    let buckets = c.u8() % 4; // the 1024-bucket geometry is too slow under ASan
    let scheme = c.u8() % 6;
    let universe = c.u8();
    let key_seed = c.u64() | 1; // odd: never the rare large geometry
    let n = (c.left() / 3).min(400);
    let ops = (0..n)
        .map(|_| match c.u8() % 9 {
            0..=4 => c15::Op::Insert(c.u16(), 0),
            5..=7 => c15::Op::Find(c.u16(), 0),
            _ => {
                let _ = c.u16();
                c15::Op::Entries
            }
        })
        .collect();
    let case = c15::Case { tables, buckets, scheme, universe, key_seed, ops };
    let mut loc = Local::new();
    if let Err(m) = c15::ModelBased.test(ctx(), &case, &mut loc) {
        fail("tt_ops", m);
    }
}

pub fn run(target: &str, data: &[u8]) -> Result<(), String> {
    let f: fn(&[u8]) = match target {
        "parsers_raw" => parsers_raw,
        "parsers_grammar" => parsers_grammar,
        "rules_diff" => rules_diff,
        "notation_rt" => notation_rt,
        "tt_ops" => tt_ops,
        _ => return Err(format!("unknown fuzz target {}", target)),
    };
    match std::panic::catch_unwind(|| f(data)) {
        Ok(()) => Ok(()),
        Err(p) => Err(crate::runner::panic_message(&p)),
    }
}
