//! Shared position generators (DESIGN.md 2.2): G-play (weighted random legal play from an
//! adversarial corpus of start positions) and G-build (constructive random legal positions).
//! Every random choice is a proptest-generated value, so cases shrink and replay.

use crate::oracle::rules::{off, Col, Kind, Mv, Pos, KING_D};
use crate::runner::pick_index;
use proptest::prelude::*;
use serde::{Deserialize, Serialize};

/// Start positions: standard perft positions plus hand-built adversarial shapes.
pub const START_FENS: &[(&str, &str)] = &[
    ("start", "rnbqkbnr/pppppppp/8/8/8/8/PPPPPPPP/RNBQKBNR w KQkq - 0 1"),
    ("kiwipete", "r3k2r/p1ppqpb1/bn2pnp1/3PN3/1p2P3/2N2Q1p/PPPBBPPP/R3K2R w KQkq - 0 1"),
    ("cpw3", "8/2p5/3p4/KP5r/1R3p1k/8/4P1P1/8 w - - 0 1"),
    ("cpw4", "r3k2r/Pppp1ppp/1b3nbN/nP6/BBP1P3/q4N2/Pp1P2PP/R2Q1RK1 w kq - 0 1"),
    ("cpw4-mirror", "r2q1rk1/pP1p2pp/Q4n2/bbp1p3/Np6/1B3NBn/pPPP1PPP/R3K2R b KQ - 0 1"),
    ("cpw5", "rnbq1k1r/pp1Pbppp/2p5/8/2B5/8/PPP1NnPP/RNBQK2R w KQ - 1 8"),
    ("cpw6", "r4rk1/1pp1qppp/p1np1n2/2b1p1B1/2B1P1b1/P1NP1N2/1PP1QPPP/R4RK1 w - - 0 10"),
    ("ep-pin-horizontal-w", "8/8/8/KPp4r/8/8/8/4k3 w - c6 0 1"),
    ("ep-pin-horizontal-b", "4K3/8/8/8/kpP4R/8/8/8 b - c3 0 1"),
    ("ep-pin-diagonal-capturer", "4k2b/8/8/3pP3/8/2K5/8/8 w - d6 0 1"),
    ("ep-pin-diagonal-victim", "4k1b1/8/8/3pP3/8/8/K7/8 w - d6 0 1"),
    ("ep-captures-checker", "4k3/8/8/2Pp4/4K3/8/8/8 w - d6 0 1"),
    ("ep-in-check-by-other", "4k3/8/8/2Pp4/8/8/8/4K2r w - d6 0 1"),
    ("ep-both-sides", "4k3/8/8/2PpP3/8/8/8/4K3 w - d6 0 1"),
    ("ep-black", "4k3/8/8/8/2pPp3/8/8/4K3 b - d3 0 1"),
    ("castle-b1-attacked", "1r2k2r/8/8/8/8/8/8/R3K2R w KQk - 0 1"),
    ("castle-b8-attacked", "r3k2r/8/8/8/8/8/8/1R2K2R b Kkq - 0 1"),
    ("castle-d1-attacked", "3rk2r/8/8/8/8/8/8/R3K2R w KQk - 0 1"),
    ("castle-f1-attacked", "r3kr2/8/8/8/8/8/8/R3K2R w KQq - 0 1"),
    ("castle-c1-attacked", "2r1k2r/8/8/8/8/8/8/R3K2R w KQk - 0 1"),
    ("castle-g1-attacked", "r3k1r1/8/8/8/8/8/8/R3K2R w KQq - 0 1"),
    ("castle-d8-f8-attacked", "r3k2r/8/8/8/8/8/8/3RKR2 b kq - 0 1"),
    ("castle-out-of-check", "4k3/8/8/8/8/8/4r3/R3K2R w KQ - 0 1"),
    ("castle-all", "r3k2r/8/8/8/8/8/8/R3K2R w KQkq - 0 1"),
    ("castle-all-pawns", "r3k2r/pppppppp/8/8/8/8/PPPPPPPP/R3K2R w KQkq - 0 1"),
    ("corner-rooks-en-prise", "r3k2r/1B4B1/8/8/8/8/1b4b1/R3K2R w KQkq - 0 1"),
    ("corner-rooks-en-prise-b", "r3k2r/1B4B1/8/8/8/8/1b4b1/R3K2R b KQkq - 0 1"),
    ("promotions", "1n1nkn1n/P1P3P1/8/8/8/8/p1p3p1/1N1NKN1N w - - 0 1"),
    ("promotions-b", "1n1nkn1n/P1P3P1/8/8/8/8/p1p3p1/1N1NKN1N b - - 0 1"),
    ("promotion-race", "6k1/PPPP4/8/8/8/8/pppp4/6K1 w - - 0 1"),
    ("underpromotion-check", "8/5P1k/8/8/8/8/8/K7 w - - 0 1"),
    ("double-check", "4k3/8/8/8/4N3/8/8/K3R3 w - - 0 1"),
    ("smothered", "6rk/6pp/8/6N1/8/8/8/K7 w - - 0 1"),
    ("back-rank", "6k1/5ppp/8/8/8/8/8/3RK3 w - - 0 1"),
    ("stalemate-next", "k7/8/8/1Q6/8/8/8/K7 w - - 0 1"),
    ("locked-walls", "4k3/1p1p1p1p/1P1P1P1P/8/8/1p1p1p1p/1P1P1P1P/4K3 w - - 0 1"),
    ("krk", "8/8/8/8/8/2K5/7R/k7 w - - 0 1"),
    ("kpk", "8/8/8/4k3/8/8/4P3/4K3 w - - 0 1"),
    ("kqk-b", "8/8/8/4k3/8/8/4q3/K7 b - - 0 1"),
    ("mate-in-3-test", "r3k2r/ppp2Npp/1b5n/4p2b/2B1P2q/BQP2P2/P5PP/RN5K w kq - 1 1"),
    ("ep-test", "r1bq2k1/3nb1pp/p2p2r1/Pp1P1p2/1BN1p2P/6P1/1PPQ1P2/R3KB1R w KQ b6 0 18"),
    ("pawn-lattice", "4k3/p1p1p1p1/8/1P1P1P1P/1p1p1p1p/8/P1P1P1P1/4K3 w - - 0 1"),
    ("pawn-lattice-b", "4k3/p1p1p1p1/8/1P1P1P1P/1p1p1p1p/8/P1P1P1P1/4K3 b - - 0 1"),
    ("italian", "r1bqk1nr/pppp1ppp/2n5/2b1p3/2B1P3/5N2/PPPP1PPP/RNBQK2R w KQkq - 4 4"),
    ("queens-everywhere", "q3k2q/8/8/3Q4/4q3/8/8/Q3K2Q w - - 0 1"),
];

pub fn start_positions() -> Vec<Pos> {
    START_FENS
        .iter()
        .map(|(name, f)| {
            let p = Pos::from_fen(f).unwrap_or_else(|| panic!("corpus FEN {} unreadable", name));
            assert!(p.is_legal_position(), "corpus position {} is not legal", name);
            p
        })
        .collect()
}

// ------------------------------------------------------------------------------------------
// G-play

#[derive(Debug, Clone, Serialize, Deserialize, PartialEq, Eq, Hash)]
pub struct PlayCase {
    pub start: u16,
    pub picks: Vec<u16>,
}

pub fn play_strategy(max_plies: usize) -> impl Strategy<Value = PlayCase> {
    (0u16..(START_FENS.len() as u16), prop::collection::vec(any::<u16>(), 0..=max_plies))
        .prop_map(|(start, picks)| PlayCase { start, picks })
}

fn weight(p: &Pos, m: &Mv, succ: &Pos) -> u32 {
    let mut w = 2;
    if m.cap.is_some() {
        w += 4;
    }
    if m.ep {
        w += 30;
    }
    if m.castle.is_some() {
        w += 24;
    }
    if m.promo.is_some() {
        w += 6;
    }
    if m.dbl {
        w += 3;
    }
    if m.kind == Kind::K || m.kind == Kind::R {
        // rights-changing moves
        if p.cas.iter().any(|x| *x) {
            w += 3;
        }
    }
    if succ.in_check(succ.stm) {
        w += 5;
    }
    w
}

/// Choose one of the legal moves by a monotone weighted mapping of `pick`.
pub fn choose<'a>(p: &Pos, legal: &'a [(Mv, Pos)], pick: u16) -> &'a (Mv, Pos) {
    let ws: Vec<u32> = legal.iter().map(|(m, n)| weight(p, m, n)).collect();
    let total: u64 = ws.iter().map(|w| *w as u64).sum();
    let mut target = (pick as u64 * total) >> 16;
    for (i, w) in ws.iter().enumerate() {
        if target < *w as u64 {
            return &legal[i];
        }
        target -= *w as u64;
    }
    legal.last().unwrap()
}

pub struct Played {
    /// positions[0] is the start, positions[i+1] = after moves[i]
    pub positions: Vec<Pos>,
    pub moves: Vec<Mv>,
}

pub fn play(starts: &[Pos], case: &PlayCase) -> Played {
    // direct index (stable when start positions are appended to the corpus)
    let start = starts[case.start as usize % starts.len()].clone();
    let mut positions = vec![start];
    let mut moves = vec![];
    for pick in case.picks.iter() {
        let cur = positions.last().unwrap();
        let legal = cur.legal();
        if legal.is_empty() {
            break;
        }
        let (m, n) = choose(cur, &legal, *pick).clone();
        // keep the clocks small (C02 bounds)
        moves.push(m);
        positions.push(n);
    }
    Played { positions, moves }
}

// ------------------------------------------------------------------------------------------
// G-build

#[derive(Debug, Clone, Serialize, Deserialize, PartialEq, Eq, Hash)]
pub struct BuildCase {
    pub wk: u8,
    pub bk: u8,
    pub pieces: Vec<(u8, u8)>,
    pub black_to_move: bool,
    /// bit i: wish for castling right i (K,Q,k,q); kings/rooks are placed accordingly
    pub castle: u8,
    /// 0 = no en-passant target; otherwise file and neighbour variant are derived from it
    pub ep: u8,
    pub half: u8,
    pub full: u16,
}

pub fn build_strategy(max_pieces: usize) -> impl Strategy<Value = BuildCase> {
    (
        0u8..64,
        0u8..64,
        prop::collection::vec((0u8..10, 0u8..64), 0..=max_pieces),
        any::<bool>(),
        prop_oneof![3 => Just(0u8), 2 => 0u8..16],
        prop_oneof![2 => Just(0u8), 1 => 1u8..=24],
        0u8..100,
        1u16..300,
    )
        .prop_map(|(wk, bk, pieces, black_to_move, castle, ep, half, full)| BuildCase {
            wk,
            bk,
            pieces,
            black_to_move,
            castle,
            ep,
            half,
            full,
        })
}

fn code_piece(code: u8) -> (Col, Kind) {
    let k = [Kind::P, Kind::N, Kind::B, Kind::R, Kind::Q][(code % 5) as usize];
    let c = if code / 5 == 0 { Col::W } else { Col::B };
    (c, k)
}

/// Constructive interpretation. Returns None only when the side not to move would be in
/// check for both choices of side to move (counted by the callers as a rejection).
pub fn build(case: &BuildCase) -> Option<Pos> {
    let mut p = Pos::empty(if case.black_to_move { Col::B } else { Col::W });
    // kings: home squares when a castling right is wished for
    let wk = if case.castle & 0b0011 != 0 { 4 } else { case.wk as usize };
    p.b[wk] = Some((Col::W, Kind::K));
    let bk = if case.castle & 0b1100 != 0 {
        60
    } else {
        // choose among squares that are neither wk nor adjacent to it
        let cands: Vec<usize> = (0..64)
            .filter(|s| *s != wk && !KING_D.iter().any(|d| off(wk, *d) == Some(*s)))
            .collect();
        cands[(case.bk as usize * cands.len()) / 64]
    };
    if bk == wk || KING_D.iter().any(|d| off(wk, *d) == Some(bk)) {
        return None;
    }
    p.b[bk] = Some((Col::B, Kind::K));
    for (i, (k, r, c)) in [(4usize, 7usize, Col::W), (4, 0, Col::W), (60, 63, Col::B), (60, 56, Col::B)]
        .iter()
        .enumerate()
    {
        if case.castle & (1 << i) != 0 && p.b[*k] == Some((*c, Kind::K)) && p.b[*r].is_none() {
            p.b[*r] = Some((*c, Kind::R));
            p.cas[i] = true;
        }
    }
    for (code, sq) in case.pieces.iter() {
        let sq = *sq as usize;
        let (c, k) = code_piece(*code);
        if p.b[sq].is_some() {
            continue;
        }
        if k == Kind::P && (sq / 8 == 0 || sq / 8 == 7) {
            continue;
        }
        p.b[sq] = Some((c, k));
    }
    if case.ep != 0 {
        let e = (case.ep - 1) as usize;
        let file = e % 8;
        let variant = e / 8; // 0: nothing forced, 1: capturer on the left, 2: on the right
        let mover = p.stm.opp(); // the side that "just double-stepped"
        let (pawn_r, target_r, origin_r) = if mover == Col::B { (4, 5, 6) } else { (3, 2, 1) };
        let (ps, ts, os) = (pawn_r * 8 + file, target_r * 8 + file, origin_r * 8 + file);
        let is_king = |p: &Pos, s: usize| matches!(p.b[s], Some((_, Kind::K)));
        if !is_king(&p, ps) && !is_king(&p, ts) && !is_king(&p, os) {
            // do not destroy a castling rook (none can stand on these ranks)
            p.b[ps] = Some((mover, Kind::P));
            p.b[ts] = None;
            p.b[os] = None;
            p.ep = Some(ts);
            let side = match variant {
                1 if file > 0 => Some(ps - 1),
                2 if file < 7 => Some(ps + 1),
                _ => None,
            };
            if let Some(s) = side {
                if !is_king(&p, s) {
                    p.b[s] = Some((p.stm, Kind::P));
                }
            }
        }
    }
    p.half = case.half as u64;
    p.full = case.full as u64;
    if p.in_check(p.stm.opp()) {
        // try the other side to move (the en-passant target would change meaning: drop it)
        if p.ep.is_some() {
            return None;
        }
        p.stm = p.stm.opp();
        if p.in_check(p.stm.opp()) {
            return None;
        }
    }
    debug_assert!(p.is_legal_position(), "G-build produced an illegal position {}", p.fen());
    if !p.is_legal_position() {
        return None;
    }
    Some(p)
}

/// Classification of a position for generator-health histograms.
pub fn classify(p: &Pos, legal: &[(Mv, Pos)], mut f: impl FnMut(&'static str)) {
    let pseudo = p.pseudo();
    if p.in_check(p.stm) {
        f("in_check");
        let k = p.king(p.stm).unwrap();
        let checkers = (0..64)
            .filter(|s| matches!(p.b[*s], Some((c, _)) if c != p.stm) && p.piece_attacks(*s) & (1 << k) != 0)
            .count();
        if checkers >= 2 {
            f("double_check");
        }
    }
    if pseudo.len() != legal.len() {
        f("pseudo_ne_legal");
    }
    if p.ep.is_some() {
        f("ep_target");
        if legal.iter().any(|(m, _)| m.ep) {
            f("ep_legal");
        } else if pseudo.iter().any(|m| m.ep) {
            f("ep_pseudo_but_illegal");
        }
    }
    if p.cas.iter().any(|x| *x) {
        f("castling_right");
        let pc = pseudo.iter().filter(|m| m.castle.is_some()).count();
        let lc = legal.iter().filter(|(m, _)| m.castle.is_some()).count();
        if lc > 0 {
            f("castle_legal");
        }
        if pc > lc {
            f("castle_blocked_by_attack");
        }
    }
    if legal.iter().any(|(m, _)| m.promo.is_some()) {
        f("promotion");
        if legal.iter().any(|(m, _)| m.promo.is_some() && m.cap.is_some()) {
            f(if p.stm == Col::W { "promo_capture_w" } else { "promo_capture_b" });
        }
    }
    if legal.is_empty() {
        f(if p.in_check(p.stm) { "checkmate" } else { "stalemate" });
    }
}
