//! Parallel proptest driver, exhaustive enumerator, evidence, replay files, known findings.

use proptest::strategy::{BoxedStrategy, Strategy};
use proptest::test_runner::{
    Config, RngAlgorithm, TestCaseError, TestError, TestRng, TestRunner,
};
use serde::{de::DeserializeOwned, Serialize};
use serde_json::{json, Value};
use std::collections::{BTreeMap, HashSet};
use std::fmt::Debug;
use std::hash::{Hash, Hasher};
use std::sync::atomic::{AtomicBool, AtomicU64, Ordering};
use std::sync::Mutex;
use std::time::Instant;

pub const VERIF_DIR: &str = "/verif";

#[derive(Clone, Copy, PartialEq, Eq, Debug)]
pub enum Tier {
    Quick,
    Thorough,
}

impl Tier {
    pub fn name(self) -> &'static str {
        match self {
            Tier::Quick => "quick",
            Tier::Thorough => "thorough",
        }
    }
    /// pick by tier
    pub fn pick<T>(self, quick: T, thorough: T) -> T {
        match self {
            Tier::Quick => quick,
            Tier::Thorough => thorough,
        }
    }
}

pub fn h64<T: Hash + ?Sized>(t: &T) -> u64 {
    // SipHash with fixed keys: deterministic across runs and processes
    #[allow(deprecated)]
    let mut h = std::hash::SipHasher::new_with_keys(0x5eed, 0xc0ffee);
    t.hash(&mut h);
    h.finish()
}

pub fn splitmix(x: &mut u64) -> u64 {
    *x = x.wrapping_add(0x9E3779B97F4A7C15);
    let mut z = *x;
    z = (z ^ (z >> 30)).wrapping_mul(0xBF58476D1CE4E5B9);
    z = (z ^ (z >> 27)).wrapping_mul(0x94D049BB133111EB);
    z ^ (z >> 31)
}

#[derive(Clone, Debug)]
pub struct Violation {
    pub check: String,
    pub case: Value,
    pub message: String,
    pub replay_path: Option<String>,
}

#[derive(Clone, Debug, serde::Deserialize)]
pub struct Finding {
    pub status: String, // "known" | "fixed"
    pub property: String,
    #[serde(default)]
    pub signature: String,
    #[serde(default)]
    pub commit: String,
    pub what: String,
}

#[derive(Default)]
struct Shared {
    evaluations: u64,
    nontrivial: HashSet<u64>,
    classes: BTreeMap<String, u64>,
    samples: Vec<Value>,
    violations: Vec<Violation>,
    known_hits: BTreeMap<String, u64>,
    parts: Vec<Value>,
    notes: Vec<String>,
    exhaustive_parts: Vec<String>,
    extra: BTreeMap<String, Value>,
}

pub struct Ctx {
    pub id: String,
    pub tier: Tier,
    pub seed: u64,
    pub threads: usize,
    /// replay mode: no tolerance, single case
    pub strict: bool,
    pub start: Instant,
    pub findings: Vec<Finding>,
    pub stop: AtomicBool,
    shared: Mutex<Shared>,
}

/// Per-thread statistics, merged into the context when a worker finishes.
#[derive(Default)]
pub struct Local {
    pub evals: u64,
    pub nontrivial: HashSet<u64>,
    pub classes: BTreeMap<&'static str, u64>,
    pub samples: Vec<Value>,
    pub known_hits: BTreeMap<String, u64>,
    pub frozen: bool,
    pub sample_cap: usize,
}

impl Local {
    pub fn new() -> Self {
        Local {
            sample_cap: 2,
            ..Default::default()
        }
    }
    #[inline]
    pub fn eval(&mut self) {
        if !self.frozen {
            self.evals += 1;
        }
    }
    #[inline]
    pub fn evals_n(&mut self, n: u64) {
        if !self.frozen {
            self.evals += n;
        }
    }
    #[inline]
    pub fn nontrivial<T: Hash + ?Sized>(&mut self, key: &T) {
        if !self.frozen {
            self.nontrivial.insert(h64(key));
        }
    }
    #[inline]
    pub fn class(&mut self, name: &'static str) {
        if !self.frozen {
            *self.classes.entry(name).or_insert(0) += 1;
        }
    }
    #[inline]
    pub fn class_n(&mut self, name: &'static str, n: u64) {
        if !self.frozen {
            *self.classes.entry(name).or_insert(0) += n;
        }
    }
    pub fn sample(&mut self, f: impl FnOnce() -> Value) {
        if !self.frozen && self.samples.len() < self.sample_cap {
            self.samples.push(f());
        }
    }
    pub fn known_hit(&mut self, sig: &str) {
        *self.known_hits.entry(sig.to_string()).or_insert(0) += 1;
    }
}

impl Ctx {
    pub fn new(id: &str, tier: Tier, seed: u64, strict: bool) -> Ctx {
        let threads = std::env::var("VERIF_THREADS")
            .ok()
            .and_then(|s| s.parse().ok())
            .unwrap_or_else(|| {
                std::thread::available_parallelism()
                    .map(|n| n.get())
                    .unwrap_or(8)
                    .min(16)
            });
        let findings = load_findings();
        Ctx {
            id: id.to_string(),
            tier,
            seed,
            threads,
            strict,
            start: Instant::now(),
            findings,
            stop: AtomicBool::new(false),
            shared: Mutex::new(Shared::default()),
        }
    }

    pub fn merge(&self, check: &str, loc: Local) {
        let mut s = self.shared.lock().unwrap();
        s.evaluations += loc.evals;
        s.nontrivial.extend(loc.nontrivial);
        for (k, v) in loc.classes {
            *s.classes.entry(format!("{}:{}", check, k)).or_insert(0) += v;
        }
        for (k, v) in loc.known_hits {
            *s.known_hits.entry(k).or_insert(0) += v;
        }
        for v in loc.samples {
            let n = s
                .samples
                .iter()
                .filter(|x| x.get("check").and_then(|c| c.as_str()) == Some(check))
                .count();
            if n < 3 {
                s.samples.push(json!({"check": check, "case": v}));
            }
        }
    }

    pub fn note(&self, s: impl Into<String>) {
        self.shared.lock().unwrap().notes.push(s.into());
    }

    pub fn extra(&self, k: &str, v: Value) {
        self.shared.lock().unwrap().extra.insert(k.to_string(), v);
    }

    pub fn part(&self, v: Value) {
        self.shared.lock().unwrap().parts.push(v);
    }

    pub fn mark_exhaustive(&self, what: &str) {
        self.shared
            .lock()
            .unwrap()
            .exhaustive_parts
            .push(what.to_string());
    }

    /// Is this signature listed as a known (unrepaired) finding for this property?
    pub fn is_known(&self, sig: &str) -> bool {
        self.findings
            .iter()
            .any(|f| f.status == "known" && f.property == self.id && f.signature == sig)
    }

    pub fn violation(&self, check: &str, case: Value, message: String) {
        let mut s = self.shared.lock().unwrap();
        let digest = h64(&(check, case.to_string()));
        let dir = format!("{}/replays", VERIF_DIR);
        let _ = std::fs::create_dir_all(&dir);
        let path = format!("{}/{}-{}-{:016x}.json", dir, self.id, check, digest);
        let body = json!({
            "property": self.id,
            "check": check,
            "case": case,
            "message": message,
            "seed": self.seed,
            "tier": self.tier.name(),
        });
        let _ = std::fs::write(&path, serde_json::to_string_pretty(&body).unwrap());
        s.violations.push(Violation {
            check: check.to_string(),
            case,
            message,
            replay_path: Some(path),
        });
        self.stop.store(true, Ordering::SeqCst);
    }

    /// A violation whose replay file already exists (corpus / replay mode)
    pub fn violation_at(&self, check: &str, case: Value, message: String, path: &str) {
        let mut s = self.shared.lock().unwrap();
        s.violations.push(Violation {
            check: check.to_string(),
            case,
            message,
            replay_path: Some(path.to_string()),
        });
    }

    pub fn violations(&self) -> usize {
        self.shared.lock().unwrap().violations.len()
    }

    /// (evaluations, violations as JSON) for the plain-build child of C14
    pub fn plain_summary(&self) -> (u64, Vec<Value>) {
        let s = self.shared.lock().unwrap();
        (
            s.evaluations,
            s.violations
                .iter()
                .map(|v| json!({"check": v.check, "case": v.case, "message": v.message}))
                .collect(),
        )
    }

    pub fn evaluations(&self) -> u64 {
        self.shared.lock().unwrap().evaluations
    }

    /// Writes the evidence file, prints KNOWN-FINDING / VIOLATION lines, returns the exit code.
    pub fn finish(&self, rule: &str, level_note: &[&str]) -> i32 {
        let s = self.shared.lock().unwrap();
        let wall = self.start.elapsed().as_secs_f64();
        for f in self
            .findings
            .iter()
            .filter(|f| f.status == "known" && f.property == self.id)
        {
            println!(
                "KNOWN-FINDING: property={} {} (signature {}; hit {} times in this run)",
                self.id,
                f.what,
                f.signature,
                s.known_hits.get(&f.signature).copied().unwrap_or(0)
            );
        }
        let mut coverage = json!({
            "evaluations": s.evaluations,
            "distinct_nontrivial": s.nontrivial.len(),
            "rule": rule,
            "samples": s.samples,
            "classes": s.classes,
            "parts": s.parts,
            "notes": s.notes,
            "known_finding_hits": s.known_hits,
            "threads": self.threads,
        });
        if !s.exhaustive_parts.is_empty() {
            coverage["exhaustive"] = json!(true);
            coverage["exhaustive_parts"] = json!(s.exhaustive_parts);
        }
        for (k, v) in s.extra.iter() {
            coverage[k] = v.clone();
        }
        let ev = json!({
            "property_id": self.id,
            "tier": self.tier.name(),
            "seed": self.seed,
            "level": "exploration",
            "coverage": coverage,
            "assumptions": level_note,
            "wall_s": (wall * 1000.0).round() / 1000.0,
            "violations": s.violations.len(),
            "violation_details": s.violations.iter().map(|v| json!({
                "check": v.check, "message": v.message, "replay": v.replay_path, "case": v.case
            })).collect::<Vec<_>>(),
        });
        if !self.strict && std::env::var("VERIF_ONLY").is_err() {
            // development runs against scratch worktrees (tools/try_worktree.sh) write elsewhere
            let dir = std::env::var("VERIF_EVIDENCE_DIR").unwrap_or_else(|_| format!("{}/evidence", VERIF_DIR));
            let _ = std::fs::create_dir_all(&dir);
            let path = format!("{}/{}.json", dir, self.id);
            std::fs::write(&path, serde_json::to_string_pretty(&ev).unwrap())
                .expect("cannot write evidence");
        }
        println!(
            "[{}] tier={} seed={} evaluations={} distinct_nontrivial={} violations={} wall={:.1}s",
            self.id,
            self.tier.name(),
            self.seed,
            s.evaluations,
            s.nontrivial.len(),
            s.violations.len(),
            wall
        );
        for v in s.violations.iter() {
            println!("  violation in {}: {}", v.check, v.message);
        }
        for v in s.violations.iter() {
            println!(
                "VIOLATION property={} replay={}",
                self.id,
                v.replay_path.clone().unwrap_or_default()
            );
        }
        if s.violations.is_empty() {
            0
        } else {
            1
        }
    }
}

fn load_findings() -> Vec<Finding> {
    let path = format!("{}/known_findings.json", VERIF_DIR);
    let Ok(txt) = std::fs::read_to_string(&path) else {
        return vec![];
    };
    let v: Value = serde_json::from_str(&txt).expect("known_findings.json is not valid JSON");
    serde_json::from_value(v["findings"].clone()).expect("known_findings.json: bad findings list")
}

// ------------------------------------------------------------------------------------------

pub trait Prop: Sync + Send {
    type Case: Debug + Clone + Serialize + DeserializeOwned + Send + 'static;
    fn name(&self) -> &'static str;
    fn strategy(&self, ctx: &Ctx) -> BoxedStrategy<Self::Case>;
    /// Err(message) = the property is violated by this case
    fn test(&self, ctx: &Ctx, case: &Self::Case, loc: &mut Local) -> Result<(), String>;
    fn max_shrink_iters(&self) -> u32 {
        4000
    }
    /// wall-clock budget for shrinking (0 = unlimited); a budget, never an oracle
    fn max_shrink_time_ms(&self) -> u32 {
        120_000
    }
    fn parallelism(&self, ctx: &Ctx) -> usize {
        ctx.threads
    }
}

pub trait DynProp: Sync + Send {
    fn name(&self) -> &'static str;
    fn run(&self, ctx: &Ctx, cases: u64);
    fn replay(&self, ctx: &Ctx, case: &Value) -> Result<(), String>;
}

pub fn seed_bytes(ctx: &Ctx, check: &str, thread: usize) -> [u8; 32] {
    let mut x = h64(&(ctx.seed, ctx.id.as_str(), check, thread as u64));
    let mut out = [0u8; 32];
    for i in 0..4 {
        out[i * 8..i * 8 + 8].copy_from_slice(&splitmix(&mut x).to_le_bytes());
    }
    out
}

impl<P: Prop> DynProp for P {
    fn name(&self) -> &'static str {
        Prop::name(self)
    }

    fn run(&self, ctx: &Ctx, cases: u64) {
        if cases == 0 {
            return;
        }
        let t0 = Instant::now();
        let threads = self.parallelism(ctx).max(1).min(cases as usize);
        let found = AtomicBool::new(false);
        let done = AtomicU64::new(0);
        std::thread::scope(|scope| {
            for t in 0..threads {
                let found = &found;
                let done = &done;
                let share = cases / threads as u64 + if (t as u64) < cases % threads as u64 { 1 } else { 0 };
                scope.spawn(move || {
                    let strategy = self.strategy(ctx);
                    let slowlog = std::env::var("VERIF_SLOWLOG").is_ok();
                    let mut loc = Local::new();
                    let config = Config {
                        cases: share as u32,
                        failure_persistence: None,
                        max_shrink_iters: self.max_shrink_iters(),
                        max_shrink_time: self.max_shrink_time_ms(),
                        max_global_rejects: 1_000_000,
                        max_local_rejects: 1_000_000,
                        verbose: 0,
                        ..Config::default()
                    };
                    let rng = TestRng::from_seed(
                        RngAlgorithm::ChaCha,
                        &seed_bytes(ctx, Prop::name(self), t),
                    );
                    let mut runner = TestRunner::new_with_rng(config, rng);
                    let loc_cell = std::cell::RefCell::new(&mut loc);
                    let result = runner.run(&strategy, |case| {
                        let mut l = loc_cell.borrow_mut();
                        // once somebody found a failure the other workers stop exploring
                        if !l.frozen && (found.load(Ordering::SeqCst) || ctx.stop.load(Ordering::SeqCst)) {
                            return Ok(());
                        }
                        // after a search deadline expired, every further attempt (shrinking) would
                        // leak another stuck search: keep the case that was found
                        if l.frozen && crate::search::TIMED_OUT.load(Ordering::SeqCst) {
                            return Ok(());
                        }
                        if slowlog {
                            eprintln!("START {:?} {}: {:?}", std::thread::current().id(), Prop::name(self), case);
                        }
                        let t_case = Instant::now();
                        let r_case = self.test(ctx, &case, &mut l);
                        if slowlog {
                            eprintln!("END {:?}", std::thread::current().id());
                        }
                        if slowlog && t_case.elapsed().as_secs_f64() > 3.0 {
                            eprintln!("SLOW {:.1}s {}: {:?}", t_case.elapsed().as_secs_f64(), Prop::name(self), case);
                        }
                        match r_case {
                            Ok(()) => {
                                if !l.frozen {
                                    done.fetch_add(1, Ordering::Relaxed);
                                }
                                Ok(())
                            }
                            Err(msg) => {
                                // from here on the closure is re-run for shrinking only
                                l.frozen = true;
                                found.store(true, Ordering::SeqCst);
                                Err(TestCaseError::fail(msg))
                            }
                        }
                    });
                    drop(loc_cell);
                    match result {
                        Ok(()) => {}
                        Err(TestError::Fail(reason, case)) => {
                            let v = serde_json::to_value(&case).unwrap_or(Value::Null);
                            // re-run the minimal case once to get its own message
                            let mut l2 = Local::new();
                            l2.frozen = true;
                            let msg = match std::panic::catch_unwind(std::panic::AssertUnwindSafe(|| {
                                self.test(ctx, &case, &mut l2)
                            })) {
                                Ok(Err(m)) => m,
                                Ok(Ok(())) => format!("(not reproduced on re-run) {}", reason),
                                Err(p) => format!("panic: {}", panic_message(&p)),
                            };
                            ctx.violation(Prop::name(self), v, msg);
                        }
                        Err(TestError::Abort(reason)) => {
                            ctx.note(format!(
                                "{}: generator aborted ({}), harness problem",
                                Prop::name(self),
                                reason
                            ));
                            eprintln!("HARNESS: {} aborted: {}", Prop::name(self), reason);
                            std::process::exit(2);
                        }
                    }
                    ctx.merge(Prop::name(self), loc);
                });
            }
        });
        ctx.part(json!({
            "check": Prop::name(self),
            "engine": "proptest",
            "cases_requested": cases,
            "cases_completed": done.load(Ordering::Relaxed),
            "threads": threads,
            "wall_s": t0.elapsed().as_secs_f64(),
        }));
    }

    fn replay(&self, ctx: &Ctx, case: &Value) -> Result<(), String> {
        let case: P::Case = serde_json::from_value(case.clone())
            .map_err(|e| format!("replay file does not fit check {}: {}", Prop::name(self), e))?;
        let mut loc = Local::new();
        let r = match std::panic::catch_unwind(std::panic::AssertUnwindSafe(|| {
            self.test(ctx, &case, &mut loc)
        })) {
            Ok(r) => r,
            Err(p) => Err(format!("panic: {}", panic_message(&p))),
        };
        ctx.merge(Prop::name(self), loc);
        r
    }
}

pub fn panic_message(p: &Box<dyn std::any::Any + Send>) -> String {
    if let Some(s) = p.downcast_ref::<&str>() {
        s.to_string()
    } else if let Some(s) = p.downcast_ref::<String>() {
        s.clone()
    } else {
        "non-string panic payload".to_string()
    }
}

/// Run `f` for every index in 0..n on all threads. The first failure (lowest index per
/// thread, then lowest overall) is reported as the violation.
pub fn par_range<F>(ctx: &Ctx, check: &'static str, n: u64, f: F)
where
    F: Fn(u64, &mut Local) -> Result<(), (Value, String)> + Sync,
{
    let t0 = Instant::now();
    let threads = ctx.threads.max(1);
    let next = AtomicU64::new(0);
    let chunk = (n / (threads as u64 * 64)).max(1);
    let failures: Mutex<Vec<(u64, Value, String)>> = Mutex::new(vec![]);
    std::thread::scope(|scope| {
        for _ in 0..threads {
            scope.spawn(|| {
                let mut loc = Local::new();
                'outer: loop {
                    let lo = next.fetch_add(chunk, Ordering::SeqCst);
                    if lo >= n {
                        break;
                    }
                    for i in lo..(lo + chunk).min(n) {
                        if ctx.stop.load(Ordering::Relaxed) {
                            break 'outer;
                        }
                        let r = std::panic::catch_unwind(std::panic::AssertUnwindSafe(|| {
                            f(i, &mut loc)
                        }));
                        let r = match r {
                            Ok(r) => r,
                            Err(p) => Err((
                                json!({ "index": i }),
                                format!("panic: {}", panic_message(&p)),
                            )),
                        };
                        if let Err((case, msg)) = r {
                            failures.lock().unwrap().push((i, case, msg));
                            break 'outer;
                        }
                    }
                }
                ctx.merge(check, loc);
            });
        }
    });
    let mut fl = failures.into_inner().unwrap();
    fl.sort_by_key(|x| x.0);
    if let Some((_, case, msg)) = fl.into_iter().next() {
        ctx.violation(check, case, msg);
    }
    ctx.part(json!({
        "check": check,
        "engine": "enumeration",
        "indices": n,
        "wall_s": t0.elapsed().as_secs_f64(),
    }));
}

/// Monotone index mapping (shrinks towards 0): u16 pick -> 0..len
#[inline]
pub fn pick_index(pick: u16, len: usize) -> usize {
    debug_assert!(len > 0);
    ((pick as usize) * len) >> 16
}

pub fn boxed<S: Strategy + 'static>(s: S) -> BoxedStrategy<S::Value> {
    s.boxed()
}

/// A failure of the machinery itself (a process cannot be spawned, a file cannot be written):
/// never a violation. Prints a HARNESS line and ends the whole run with exit code 2.
pub fn harness_fail(msg: &str) -> ! {
    eprintln!("HARNESS: {}", msg);
    std::process::exit(2)
}

/// For failures that cannot be returned through a check (a call that never comes back): writes the
/// replay file, prints the violation lines and ends the process with 1.
pub fn emergency_violation(property: &str, check: &str, case: Value, message: &str) -> ! {
    let digest = h64(&(check, case.to_string()));
    let dir = format!("{}/replays", VERIF_DIR);
    let _ = std::fs::create_dir_all(&dir);
    let path = format!("{}/{}-{}-{:016x}.json", dir, property, check, digest);
    let body = json!({"property": property, "check": check, "case": case, "message": message});
    let _ = std::fs::write(&path, serde_json::to_string_pretty(&body).unwrap());
    // (the evidence file of the last completed run is left as it is: this run covered nothing it could describe)
    println!("  violation in {}: {}", check, message);
    println!("VIOLATION property={} replay={}", property, path);
    std::process::exit(1)
}
