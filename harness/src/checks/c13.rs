//! C13 — evaluation is colour-symmetric (metamorphic).

use super::c01::{small_family_pos, small_family_size, starts};
use super::Plan;
use crate::gen::{self, BuildCase, PlayCase};
use crate::glue::{self, o_col};
use crate::oracle::rules::{Col, Kind, Pos};
use crate::runner::{par_range, Ctx, DynProp, Local, Prop};
use proptest::prelude::*;
use serde::{Deserialize, Serialize};
use serde_json::{json, Value};
use weechess_engine::eval::Evaluator;

const PLIES: [usize; 5] = [0, 1, 5, 10, 50];

pub fn check_symmetry(p: &Pos, loc: &mut Local) -> Result<(), String> {
    let s = glue::state_direct(p);
    let m = p.mirror();
    let sm = glue::state_direct(&m);
    let e = Evaluator::default();
    for ply in PLIES {
        loc.eval();
        let w = i32::from(e.evaluate(&s, o_col(Col::W), ply));
        let b = i32::from(e.evaluate(&s, o_col(Col::B), ply));
        if w != -b {
            return Err(format!(
                "'{}' at ply {}: White's perspective {} is not the negation of Black's {}",
                p.fen(), ply, w, b
            ));
        }
        for c in [Col::W, Col::B] {
            let a = i32::from(e.evaluate(&s, o_col(c), ply));
            let mm = i32::from(e.evaluate(&sm, o_col(c.opp()), ply));
            if a != mm {
                return Err(format!(
                    "'{}' scores {} for {:?} but its mirror '{}' scores {} for {:?} (ply {})",
                    p.fen(), a, c, m.fen(), mm, c.opp(), ply
                ));
            }
        }
    }
    let pawns = p.b.iter().flatten().any(|x| x.1 == Kind::P);
    let w_men = p.b.iter().flatten().filter(|x| x.0 == Col::W).count();
    let b_men = p.b.iter().flatten().filter(|x| x.0 == Col::B).count();
    if m.fen4() != p.fen4() && (pawns || (p.men() <= 8 && w_men != b_men)) {
        loc.nontrivial(&p.fen4());
    }
    if !p.has_legal_move() {
        loc.class("terminal");
    }
    if p.men() <= 8 && w_men != b_men {
        loc.class("king_to_edge_term_active");
    }
    Ok(())
}

#[derive(Debug, Clone, Serialize, Deserialize)]
pub enum Source {
    Play(PlayCase),
    Build(BuildCase),
}

pub struct Symmetry;

impl Prop for Symmetry {
    type Case = Source;
    fn name(&self) -> &'static str {
        "colour_symmetry"
    }
    fn strategy(&self, _: &Ctx) -> BoxedStrategy<Source> {
        prop_oneof![
            gen::play_strategy(120).prop_map(Source::Play),
            gen::build_strategy(20).prop_map(Source::Build),
        ]
        .boxed()
    }
    fn test(&self, _: &Ctx, case: &Source, loc: &mut Local) -> Result<(), String> {
        let last = match case {
            Source::Play(c) => {
                let played = gen::play(starts(), c);
                for p in played.positions.iter() {
                    check_symmetry(p, loc)?;
                }
                played.positions.last().unwrap().clone()
            }
            Source::Build(c) => {
                let Some(p) = gen::build(c) else {
                    loc.class("rejected_build");
                    return Ok(());
                };
                check_symmetry(&p, loc)?;
                p
            }
        };
        // terminal positions among the successors
        for (_, n) in last.legal() {
            if !n.has_legal_move() {
                check_symmetry(&n, loc)?;
            }
        }
        loc.sample(|| json!({"fen": last.fen(), "mirror": last.mirror().fen()}));
        Ok(())
    }
}

pub struct SmallFamilies;

impl DynProp for SmallFamilies {
    fn name(&self) -> &'static str {
        "symmetry_small_families"
    }
    fn run(&self, ctx: &Ctx, cases: u64) {
        let stride = cases.max(1);
        let n = small_family_size() / stride;
        let offset = if stride > 1 { ctx.seed % stride } else { 0 };
        par_range(ctx, "symmetry_small_families", n, |j, loc| {
            let Some(p) = small_family_pos(j * stride + offset) else { return Ok(()) };
            check_symmetry(&p, loc).map_err(|m| (json!({"fen": p.fen()}), m))
        });
        if stride == 1 {
            ctx.mark_exhaustive("all legal K+X v K positions");
        }
    }
    fn replay(&self, _: &Ctx, case: &Value) -> Result<(), String> {
        let p = Pos::from_fen(case["fen"].as_str().ok_or("no fen")?).ok_or("bad fen")?;
        check_symmetry(&p, &mut Local::new())
    }
}

pub fn plan(ctx: &Ctx) -> Plan {
    let t = ctx.tier;
    Plan {
        props: vec![
            (Box::new(SmallFamilies), t.pick(3, 1)),
            (Box::new(Symmetry), t.pick(200_000, 5_000_000)),
        ],
        rule: "positions of weighted random games, constructed positions (up to 20 extra men), their terminal \
               successors and the K+X v K families (stride 3 in quick, complete in thorough); for ply in {0,1,5,10,50}: \
               evaluate(s,White,p) == -evaluate(s,Black,p), and with the oracle's mirror (flip ranks, swap colours, side, \
               rights, ep square) evaluate(mirror(s), !c, p) == evaluate(s, c, p), both exactly. Non-trivial = distinct \
               positions that differ from their mirror and have pawns on the board, or have <= 8 men with unequal piece \
               counts (king-to-edge term active).",
        assumptions: &["the oracle's mirror() is the transformation the property describes"],
        self_test: super::oracle_self_test,
        post: None,
    }
}
