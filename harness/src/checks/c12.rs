//! C12 — move text resolves to exactly the intended move.

use super::c01::starts;
use super::Plan;
use crate::gen::{self, BuildCase, PlayCase};
use crate::glue;
use crate::oracle::rules::{Mv, Pos};
use crate::oracle::san;
use crate::runner::{Ctx, Local, Prop};
use proptest::prelude::*;
use serde::{Deserialize, Serialize};
use serde_json::json;
use weechess_core::{
    notation::{into_notation, lan::Lan, try_from_notation, San},
    MoveGenerator, MoveQuery, MoveSet,
};

#[derive(Debug, Clone, Serialize, Deserialize)]
pub enum Source {
    Play(PlayCase),
    Build(BuildCase),
}

fn resolve(set: &MoveSet, text: &str) -> Result<Vec<Mv>, String> {
    let q = try_from_notation::<MoveQuery, San>(text).map_err(|_| "parse error".to_string())?;
    Ok(set.filter(q).map(|r| glue::read_move(&r.0)).collect())
}

pub fn check_position(p: &Pos, loc: &mut Local) -> Result<(), String> {
    let legal = p.legal();
    let state = glue::state_direct(p);
    let set = MoveGenerator::compute_legal_moves(&state);
    for (m, succ) in legal.iter() {
        for sp in san::spellings(p, &legal, m, succ) {
            loc.eval();
            match resolve(&set, &sp.text) {
                Err(e) => {
                    return Err(format!("'{}': SAN '{}' of legal move {:?} is rejected ({})", p.fen(), sp.text, m, e));
                }
                Ok(found) => {
                    if found.len() != 1 || found[0] != *m {
                        return Err(format!(
                            "'{}': SAN '{}' denotes {:?} but resolves to {:?}",
                            p.fen(),
                            sp.text,
                            m,
                            found
                        ));
                    }
                }
            }
            if sp.interesting {
                loc.nontrivial(&(p.fen4(), &sp.text));
            }
            // the oracle's own reader must agree that the spelling is unambiguous
            debug_assert!(san::read(&legal, &sp.text).map(|i| legal[i].0 == *m).unwrap_or(false), "oracle SAN writer/reader disagree on {}", sp.text);
        }
        if m.castle.is_some() {
            loc.class("castle");
        }
        if m.promo.is_some() {
            loc.class("promotion");
        }
        if m.ep {
            loc.class("ep");
        }
        // coordinate notation
        let Some(r) = set.moves().iter().find(|r| glue::read_move(&r.0) == *m) else {
            return Err(format!("'{}': legal move {:?} is not generated", p.fen(), m));
        };
        let lan = into_notation::<_, Lan>(&r.0).to_string();
        loc.eval();
        if lan != m.lan() {
            return Err(format!("'{}': coordinate text of {:?} is '{}', expected '{}'", p.fen(), m, lan, m.lan()));
        }
        // ... and that text selects the same move again (origin, destination, promotion letter)
        let mut q = MoveQuery::by_moving_from_to(
            glue::o_sq(crate::oracle::rules::parse_sq(&lan[0..2]).ok_or("bad lan")?),
            glue::o_sq(crate::oracle::rules::parse_sq(&lan[2..4]).ok_or("bad lan")?),
        );
        if let Some(c) = lan.chars().nth(4) {
            q.set_promotion(match c {
                'q' => weechess_core::Piece::Queen,
                'r' => weechess_core::Piece::Rook,
                'b' => weechess_core::Piece::Bishop,
                'n' => weechess_core::Piece::Knight,
                _ => return Err(format!("coordinate text '{}' has an unexpected fifth character", lan)),
            });
        }
        let found: Vec<Mv> = set.filter(q).map(|r| glue::read_move(&r.0)).collect();
        if found.len() != 1 || found[0] != *m {
            return Err(format!("'{}': coordinate text '{}' of {:?} selects {:?}", p.fen(), lan, m, found));
        }
    }
    // negatives: pseudo-legal but illegal moves, spelled so that they denote exactly that move
    for m in p.pseudo() {
        if p.is_legal_pseudo(&m) {
            continue;
        }
        let text = san::full_spelling(&m);
        // "O-O" of an illegal castling move must match nothing (no legal castle on that side
        // can exist at the same time)
        loc.eval();
        loc.class("negative");
        if let Ok(found) = resolve(&set, &text) {
            if !found.is_empty() {
                return Err(format!(
                    "'{}': SAN '{}' denotes the illegal move {:?} but resolves to {:?}",
                    p.fen(),
                    text,
                    m,
                    found
                ));
            }
        }
        loc.nontrivial(&(p.fen4(), &text, "neg"));
    }
    // move LISTS in coordinate notation (what `info pv` prints): the texts of the moves, in order,
    // separated by single blanks - also when a move occurs more than once in the list
    let moves: Vec<weechess_core::Move> = set.moves().iter().map(|r| r.0).collect();
    if !moves.is_empty() {
        let mut x = crate::runner::h64(&p.fen4());
        for _ in 0..4 {
            let len = (crate::runner::splitmix(&mut x) % 9) as usize;
            // drawn from at most three distinct moves, so that repetitions are the rule
            let pool = (crate::runner::splitmix(&mut x) % 3) as usize + 1;
            let base = (crate::runner::splitmix(&mut x) % moves.len() as u64) as usize;
            let list: Vec<weechess_core::Move> = (0..len).map(|_| moves[(base + (crate::runner::splitmix(&mut x) % pool as u64) as usize) % moves.len()]).collect();
            let written = into_notation::<_, Lan>(&&list[..]).to_string();
            let want = list.iter().map(|m| into_notation::<_, Lan>(m).to_string()).collect::<Vec<_>>().join(" ");
            loc.eval();
            if written != want {
                return Err(format!("'{}': the move list {:?} is written as '{}', expected '{}'", p.fen(), list.iter().map(|m| glue::read_move(m).lan()).collect::<Vec<_>>(), written, want));
            }
            if len >= 3 {
                loc.class("move_list_written");
            }
        }
    }
    Ok(())
}

pub struct SanResolution;

impl Prop for SanResolution {
    type Case = Source;
    fn name(&self) -> &'static str {
        "san_and_coordinates"
    }
    fn strategy(&self, _: &Ctx) -> BoxedStrategy<Source> {
        prop_oneof![
            gen::play_strategy(100).prop_map(Source::Play),
            gen::build_strategy(20).prop_map(Source::Build),
        ]
        .boxed()
    }
    fn test(&self, _: &Ctx, case: &Source, loc: &mut Local) -> Result<(), String> {
        match case {
            Source::Play(c) => {
                let played = gen::play(starts(), c);
                // every 3rd position of the game plus the last one
                let n = played.positions.len();
                for (i, p) in played.positions.iter().enumerate() {
                    if i % 3 == 0 || i + 1 == n {
                        check_position(p, loc)?;
                    }
                }
                loc.sample(|| json!({"end": played.positions.last().unwrap().fen()}));
            }
            Source::Build(c) => {
                let Some(p) = gen::build(c) else {
                    loc.class("rejected_build");
                    return Ok(());
                };
                check_position(&p, loc)?;
                loc.sample(|| {
                    let legal = p.legal();
                    json!({"fen": p.fen(), "spellings_of_first_move": legal.first().map(|(m, s)| san::spellings(&p, &legal, m, s).into_iter().map(|x| x.text).collect::<Vec<_>>())})
                });
            }
        }
        Ok(())
    }
}

pub fn plan(ctx: &Ctx) -> Plan {
    let t = ctx.tier;
    Plan {
        props: vec![(Box::new(SanResolution), t.pick(120_000, 3_000_000))
            , (Box::new(crate::fuzzdrv::target("notation_rt")), t.pick(0, 10_000))],
        rule: "positions from weighted random play and the constructive builder (up to 20 extra men, so several like \
               pieces often attack one square); for every legal move an independent SAN writer emits all admissible \
               spellings (disambiguation none/file/rank/file+rank where it identifies the move uniquely, 'x' on captures, \
               '=Q' and 'Q' promotion forms, with and without the appropriate '+'/'#', O-O/O-O-O, long pawn forms); each \
               must parse to a query that MoveSet::filter resolves to exactly that move. Every pseudo-legal-but-illegal \
               move, spelled with full origin, must resolve to nothing. The Lan text of each move must equal origin + \
               destination + lower-case promotion letter, and the query built from that text must select the same move; move lists (with repeated moves) must be written as \
               the single texts separated by blanks. \
               Non-trivial = distinct (position, spelling) needing disambiguation or carrying promotion/castle/ep/suffix; all negatives.",
        assumptions: &["only spellings a PGN writer may produce are generated (no 'Pe4', '0-0', 'e.p.')", "the mailbox rules oracle is correct (anchored to published perft counts)"],
        self_test: super::oracle_self_test,
        post: None,
    }
}
