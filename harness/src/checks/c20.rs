//! C20 — move values faithfully carry their attributes (exhaustive).

use super::Plan;
use crate::glue::{self, o_col, o_kind, o_sq};
use crate::oracle::rules::{Col, Kind, Mv, KINDS};
use crate::runner::{par_range, Ctx, DynProp};
use serde_json::{json, Value};
use std::sync::Mutex;
use weechess_core::{Move, PieceIndex, Side};

const CAPS: [Option<Kind>; 6] = [None, Some(Kind::P), Some(Kind::N), Some(Kind::B), Some(Kind::R), Some(Kind::Q)];
const PROMOS: [Option<Kind>; 5] = [None, Some(Kind::N), Some(Kind::B), Some(Kind::R), Some(Kind::Q)];

const N_MAIN: u64 = 2 * 6 * 64 * 64 * 6 * 5;
const N_EP: u64 = 2 * 64 * 64;
const N_CASTLE: u64 = 4;

/// index -> (intended attribute tuple, whether the double-step flag is asserted, the move)
fn construct(i: u64) -> (Mv, Option<bool>, Move) {
    if i < N_MAIN {
        let promo = PROMOS[(i % 5) as usize];
        let cap = CAPS[((i / 5) % 6) as usize];
        let to = ((i / 30) % 64) as usize;
        let from = ((i / 1920) % 64) as usize;
        let kind = KINDS[((i / 122880) % 6) as usize];
        let col = if i / 737280 == 0 { Col::W } else { Col::B };
        let pi = PieceIndex::new(o_col(col), o_kind(kind));
        let (f, t) = (o_sq(from), o_sq(to));
        let mv = match (cap, promo) {
            (None, None) => Move::by_moving(pi, f, t),
            (Some(c), None) => Move::by_capturing(pi, f, t, o_kind(c)),
            (None, Some(p)) => Move::by_promoting(pi, f, t, o_kind(p)),
            (Some(c), Some(p)) => Move::by_capture_promoting(pi, f, t, o_kind(c), o_kind(p)),
        };
        let dist = (from / 8).abs_diff(to / 8);
        let dbl = if kind != Kind::P {
            Some(false)
        } else if dist == 2 {
            Some(true)
        } else if dist <= 1 {
            Some(false)
        } else {
            None // the constructor's rule for other distances is not part of the property
        };
        (
            Mv { from, to, kind, col, cap, promo, ep: false, castle: None, dbl: dbl.unwrap_or(false) },
            dbl,
            mv,
        )
    } else if i < N_MAIN + N_EP {
        let j = i - N_MAIN;
        let to = (j % 64) as usize;
        let from = ((j / 64) % 64) as usize;
        let col = if j / 4096 == 0 { Col::W } else { Col::B };
        let pi = PieceIndex::new(o_col(col), o_kind(Kind::P));
        let mv = Move::by_en_passant(pi, o_sq(from), o_sq(to));
        let dist = (from / 8).abs_diff(to / 8);
        let dbl = if dist == 2 { Some(true) } else if dist <= 1 { Some(false) } else { None };
        (
            Mv { from, to, kind: Kind::P, col, cap: Some(Kind::P), promo: None, ep: true, castle: None, dbl: dbl.unwrap_or(false) },
            dbl,
            mv,
        )
    } else {
        let j = i - N_MAIN - N_EP;
        let col = if j / 2 == 0 { Col::W } else { Col::B };
        let side = (j % 2) as u8;
        let mv = Move::by_castling(o_col(col), if side == 0 { Side::King } else { Side::Queen });
        let from = if col == Col::W { 4 } else { 60 };
        let to = if side == 0 { from + 2 } else { from - 2 };
        (
            Mv { from, to, kind: Kind::K, col, cap: None, promo: None, ep: false, castle: Some(side), dbl: false },
            Some(false),
            mv,
        )
    }
}

fn check_one(i: u64) -> Result<(u32, Mv, bool), String> {
    let (want, dbl_asserted, mv) = construct(i);
    let mut got = glue::read_move(&mv);
    if dbl_asserted.is_none() {
        got.dbl = want.dbl;
    }
    if got != want {
        return Err(format!("constructed {:?} but the move reports {:?}", want, got));
    }
    if mv.is_capture() != want.cap.is_some()
        || mv.is_promotion() != want.promo.is_some()
        || mv.is_any_castle() != want.castle.is_some()
        || mv.is_castle(Side::King) != (want.castle == Some(0))
        || mv.is_castle(Side::Queen) != (want.castle == Some(1))
        || mv.resulting_piece() != o_kind(want.promo.unwrap_or(want.kind))
    {
        return Err(format!("derived accessors disagree with the attributes of {:?}", want));
    }
    // equality: equal to an identically constructed move, and equal to a pseudo-randomly
    // chosen other move (and to its index neighbours) exactly when the tuples are equal
    if mv != construct(i).2 {
        return Err(format!("{:?} is not equal to an identically constructed move", want));
    }
    let n = N_MAIN + N_EP + N_CASTLE;
    // partners: a pseudo-random one, the index neighbours (in the main family each differs in exactly
    // one attribute: promotion, capture, destination, origin, kind, colour) and the twin in another
    // family that differs in nothing but the marker (en passant v. pawn takes pawn on the same
    // squares; castling v. the king's plain two-square move)
    let mut partners = vec![(i.wrapping_mul(2654435761).wrapping_add(12345)) % n, (i + 1) % n, (i + 5) % n, (i + 30) % n, (i + 1920) % n, (i + 122880) % n, (i + 737280) % n];
    let main_index = |col: Col, kind: Kind, from: usize, to: usize, cap: usize, promo: usize| -> u64 {
        let k = KINDS.iter().position(|x| *x == kind).unwrap() as u64;
        (((((if col == Col::W { 0 } else { 1 }) * 6 + k) * 64 + from as u64) * 64 + to as u64) * 6 + cap as u64) * 5 + promo as u64
    };
    if want.ep {
        partners.push(main_index(want.col, Kind::P, want.from, want.to, 1, 0));
    } else if want.castle.is_some() {
        partners.push(main_index(want.col, Kind::K, want.from, want.to, 0, 0));
    } else if want.kind == Kind::P && want.cap == Some(Kind::P) && want.promo.is_none() {
        partners.push(N_MAIN + (if want.col == Col::W { 0 } else { 4096 }) + (want.from as u64) * 64 + want.to as u64);
    }
    for j in partners {
        let (w2, d2, m2) = construct(j);
        let same = {
            let (mut x, y) = (want, w2);
            if dbl_asserted.is_none() || d2.is_none() {
                x.dbl = y.dbl;
            }
            x == y
        };
        if (mv == m2) != same && !(dbl_asserted.is_none() || d2.is_none()) {
            return Err(format!("{:?} == {:?} is {} but the attribute tuples are {}", want, w2, mv == m2, if same { "equal" } else { "different" }));
        }
        // equal moves hash equal (moves are keys of the book's and the generator's sets)
        if mv == m2 {
            use std::hash::{Hash, Hasher};
            let h = |m: &Move| {
                let mut s = std::collections::hash_map::DefaultHasher::new();
                m.hash(&mut s);
                s.finish()
            };
            if h(&mv) != h(&m2) {
                return Err(format!("{:?} and {:?} compare equal but hash differently", want, w2));
            }
        }
    }
    let raw = mv.as_raw();
    if raw >> 29 != 0 {
        return Err(format!("{:?} packs to {:#x}: bits 29-31 are not clear", want, raw));
    }
    // serialisation round trips
    let js = serde_json::to_string(&mv).map_err(|e| format!("serde_json: {}", e))?;
    let back: Move = serde_json::from_str(&js).map_err(|e| format!("serde_json read: {}", e))?;
    if back != mv || glue::read_move(&back) != glue::read_move(&mv) {
        return Err(format!("{:?} does not survive the JSON round trip ({})", want, js));
    }
    let mut buf = Vec::with_capacity(8);
    ciborium::into_writer(&mv, &mut buf).map_err(|e| format!("ciborium: {}", e))?;
    let back: Move = ciborium::de::from_reader(&buf[..]).map_err(|e| format!("ciborium read: {}", e))?;
    if back != mv || glue::read_move(&back) != glue::read_move(&mv) {
        return Err(format!("{:?} does not survive the CBOR round trip", want));
    }
    Ok((raw, want, dbl_asserted.is_some()))
}

pub struct AllMoves;

impl DynProp for AllMoves {
    fn name(&self) -> &'static str {
        "all_move_values"
    }
    fn run(&self, ctx: &Ctx, _: u64) {
        let n = N_MAIN + N_EP + N_CASTLE;
        let raws: Mutex<Vec<(u32, u64)>> = Mutex::new(Vec::with_capacity(n as usize));
        let local: Mutex<Vec<Vec<(u32, u64)>>> = Mutex::new(vec![]);
        let _ = &local;
        par_range(ctx, "all_move_values", n, |i, loc| {
            match check_one(i) {
                Ok((raw, want, _)) => {
                    loc.eval();
                    if want.cap.is_some() || want.promo.is_some() || want.ep || want.castle.is_some() || want.dbl {
                        loc.nontrivial(&want);
                    }
                    if i % 100_003 == 0 {
                        loc.sample(|| json!({"index": i, "attributes": format!("{:?}", want), "raw": raw}));
                    }
                    // buffered per chunk would be faster; the lock is uncontended enough
                    raws.lock().unwrap().push((raw, i));
                    Ok(())
                }
                Err(m) => Err((json!({"index": i}), m)),
            }
        });
        if ctx.violations() > 0 {
            return;
        }
        // injectivity: two different attribute tuples never share a packed value; and `==`
        // agrees with tuple equality
        let mut v = raws.into_inner().unwrap();
        v.sort();
        for w in v.windows(2) {
            let (a, b) = (construct(w[0].1), construct(w[1].1));
            let same_tuple = {
                let (mut x, y) = (a.0, b.0);
                if a.1.is_none() || b.1.is_none() {
                    x.dbl = y.dbl;
                }
                x == y
            };
            if w[0].0 == w[1].0 && !same_tuple {
                ctx.violation(
                    "all_move_values",
                    json!({"index": w[0].1, "other": w[1].1}),
                    format!("{:?} and {:?} pack to the same value {:#x}", a.0, b.0, w[0].0),
                );
                return;
            }
            if (a.2 == b.2) != (w[0].0 == w[1].0) {
                ctx.violation(
                    "all_move_values",
                    json!({"index": w[0].1, "other": w[1].1}),
                    format!("== on {:?} and {:?} disagrees with their packed values", a.0, b.0),
                );
                return;
            }
            if a.2 == b.2 && !same_tuple {
                ctx.violation(
                    "all_move_values",
                    json!({"index": w[0].1, "other": w[1].1}),
                    format!("{:?} and {:?} compare equal", a.0, b.0),
                );
                return;
            }
        }
        let distinct = {
            let mut d = v.iter().map(|x| x.0).collect::<Vec<_>>();
            d.dedup();
            d.len()
        };
        ctx.extra("distinct_packed_values", json!(distinct));
        ctx.mark_exhaustive("all constructor combinations: 2 colours x 6 kinds x 64 x 64 x 6 captures x 5 promotions, all en-passant moves, 4 castling moves");
    }
    fn replay(&self, _: &Ctx, case: &Value) -> Result<(), String> {
        let i = case["index"].as_u64().ok_or("no index")?;
        check_one(i)?;
        if let Some(j) = case["other"].as_u64() {
            let (a, b) = (construct(i), construct(j));
            let same = { let (mut x, y) = (a.0, b.0); if a.1.is_none() || b.1.is_none() { x.dbl = y.dbl; } x == y };
            if (a.2 == b.2) != same {
                return Err(format!("{:?} and {:?}: equality {} but tuples equal {}", a.0, b.0, a.2 == b.2, same));
            }
        }
        Ok(())
    }
}

pub fn plan(_: &Ctx) -> Plan {
    Plan {
        props: vec![(Box::new(AllMoves), 1)],
        rule: "complete enumeration of the four constructors over 2 colours x 6 kinds x 64 origins x 64 destinations x \
               {no capture, P,N,B,R,Q} x {no promotion, N,B,R,Q}, all 8192 by_en_passant moves and the 4 by_castling \
               moves; every accessor must return what went in, the packed value must be injective over attribute \
               tuples, == must agree with tuple equality (checked on all neighbours in packed order, on the index neighbours that differ in exactly one attribute, and on the twins that differ only in the en-passant or castling marker; equal moves must hash equal), serde_json and \
               ciborium round trips must return an equal move. Non-trivial = distinct tuples with a capture, promotion, \
               en-passant, castling or double-step attribute.",
        assumptions: &[
            "the double-step flag is asserted true for a pawn moving exactly two ranks and false for non-pawns and pawn moves of <= 1 rank; other distances are not part of the property",
        ],
        self_test: super::no_self_test,
        post: None,
    }
}
