//! C01 — legal move generation is exactly the rules of chess; perft built on it.

use super::Plan;
use crate::gen::{self, BuildCase, PlayCase};
use crate::glue;
use crate::oracle::rules::{Col, Kind, Mv, Pos, KINDS};
use crate::runner::{par_range, Ctx, DynProp, Local, Prop};
use proptest::prelude::*;
use serde::{Deserialize, Serialize};
use serde_json::{json, Value};
use std::sync::OnceLock;
use weechess_core::MoveGenerator;
use weechess_engine::searcher::Searcher;

pub fn starts() -> &'static Vec<Pos> {
    static S: OnceLock<Vec<Pos>> = OnceLock::new();
    S.get_or_init(gen::start_positions)
}

/// Compare weechess's legal move list with the oracle's, as sorted multisets of attribute
/// tuples. `legal` is the oracle's list for `p`.
pub fn compare_moves(p: &Pos, legal: &[(Mv, Pos)]) -> Result<(), String> {
    let state = glue::state_direct(p);
    let set = MoveGenerator::compute_legal_moves(&state);
    let mut theirs: Vec<Mv> = set.moves().iter().map(|r| glue::read_move(&r.0)).collect();
    let mut ours: Vec<Mv> = legal.iter().map(|x| x.0).collect();
    theirs.sort();
    ours.sort();
    if theirs == ours {
        return Ok(());
    }
    let missing: Vec<&Mv> = ours.iter().filter(|m| !theirs.contains(m)).collect();
    let extra: Vec<&Mv> = theirs.iter().filter(|m| !ours.contains(m)).collect();
    let dup = theirs.windows(2).any(|w| w[0] == w[1]);
    Err(format!(
        "move list of '{}' differs from the rules: missing {:?}, extra {:?}, duplicates {}",
        p.fen(),
        missing,
        extra,
        dup
    ))
}

pub fn nontrivial_position(p: &Pos, legal: &[(Mv, Pos)]) -> bool {
    p.pseudo().len() != legal.len()
        || p.cas.iter().any(|x| *x)
        || p.ep.is_some()
        || (8..16).any(|s| p.b[s] == Some((Col::B, Kind::P)))
        || (48..56).any(|s| p.b[s] == Some((Col::W, Kind::P)))
}

fn account(p: &Pos, legal: &[(Mv, Pos)], loc: &mut Local) {
    loc.eval();
    if nontrivial_position(p, legal) {
        loc.nontrivial(&p.fen4());
    }
    gen::classify(p, legal, |c| loc.class(c));
}

// ---------------------------------------------------------------------------------- play

pub struct MovegenPlay {
    pub max_plies: usize,
}

impl Prop for MovegenPlay {
    type Case = PlayCase;
    fn name(&self) -> &'static str {
        "movegen_play"
    }
    fn strategy(&self, _: &Ctx) -> BoxedStrategy<PlayCase> {
        gen::play_strategy(self.max_plies).boxed()
    }
    fn test(&self, _: &Ctx, case: &PlayCase, loc: &mut Local) -> Result<(), String> {
        let played = gen::play(starts(), case);
        for p in played.positions.iter() {
            let legal = p.legal();
            account(p, &legal, loc);
            compare_moves(p, &legal)?;
        }
        loc.sample(|| {
            json!({"start": played.positions[0].fen(), "plies": played.moves.len(),
                   "last": played.positions.last().unwrap().fen()})
        });
        Ok(())
    }
}

// --------------------------------------------------------------------------------- build

pub struct MovegenBuild;

impl Prop for MovegenBuild {
    type Case = BuildCase;
    fn name(&self) -> &'static str {
        "movegen_build"
    }
    fn strategy(&self, _: &Ctx) -> BoxedStrategy<BuildCase> {
        gen::build_strategy(14).boxed()
    }
    fn test(&self, _: &Ctx, case: &BuildCase, loc: &mut Local) -> Result<(), String> {
        let Some(p) = gen::build(case) else {
            loc.class("rejected_build");
            return Ok(());
        };
        let legal = p.legal();
        account(&p, &legal, loc);
        compare_moves(&p, &legal)?;
        // one ply further: every successor is again a legal position of the domain
        for (_, n) in legal.iter().take(6) {
            let l2 = n.legal();
            account(n, &l2, loc);
            compare_moves(n, &l2)?;
        }
        loc.sample(|| json!({"fen": p.fen(), "legal_moves": legal.len()}));
        Ok(())
    }
}

// --------------------------------------------------------------------------------- perft

#[derive(Debug, Clone, Serialize, Deserialize)]
pub struct PerftCase {
    pub game: PlayCase,
    pub depth: u8,
}

pub struct PerftPlay {
    /// node budget per case
    pub budget: f64,
}

fn oracle_divide(p: &Pos, depth: usize) -> (u64, Vec<(Mv, u64)>) {
    let mut total = 0;
    let mut div = vec![];
    for (m, n) in p.legal() {
        let c = n.perft(depth - 1);
        total += c;
        div.push((m, c));
    }
    div.sort();
    (total, div)
}

/// Deepest depth (1..=7) whose perft stays near `budget` nodes, judged from the branching at the
/// root and one ply below. Sparse positions go deep: that is where the walk meets the same position
/// through different move orders, which a walk that remembers positions would have to get right.
pub fn adaptive_depth(p: &Pos, budget: f64) -> usize {
    let legal = p.legal();
    if legal.is_empty() {
        return 1;
    }
    let b1 = legal.len() as f64;
    let b2 = legal.iter().map(|(_, n)| n.legal().len()).sum::<usize>() as f64 / b1;
    let b = ((b1 * b2.max(1.0)).sqrt()).max(1.5);
    ((budget.ln() / b.ln()).floor() as usize).clamp(1, 7)
}

pub fn check_perft(p: &Pos, depth: usize) -> Result<u64, String> {
    let state = glue::state_direct(p);
    let mut divide: Vec<(Mv, u64)> = vec![];
    let total = Searcher::new().perft(&state, depth, |_, mv, d, count| {
        if d == 1 {
            divide.push((glue::read_move(mv), count as u64));
        }
    }) as u64;
    divide.sort();
    let (want, want_div) = oracle_divide(p, depth);
    if total != want {
        return Err(format!(
            "perft({}) of '{}' = {} but the rules give {}",
            depth,
            p.fen(),
            total,
            want
        ));
    }
    // the callback is only invoked for depth >= 2 (documented: leaf counting shortcut)
    if depth >= 2 && divide != want_div {
        return Err(format!(
            "perft({}) of '{}': per-move subtotals differ: engine {:?} rules {:?}",
            depth,
            p.fen(),
            divide,
            want_div
        ));
    }
    Ok(total)
}

impl Prop for PerftPlay {
    type Case = PerftCase;
    fn name(&self) -> &'static str {
        "perft_play"
    }
    fn strategy(&self, _: &Ctx) -> BoxedStrategy<PerftCase> {
        (gen::play_strategy(40), 0u8..=5)
            .prop_map(|(game, depth)| PerftCase { game, depth })
            .boxed()
    }
    fn test(&self, _: &Ctx, case: &PerftCase, loc: &mut Local) -> Result<(), String> {
        let played = gen::play(starts(), &case.game);
        let p = played.positions.last().unwrap();
        // as deep as the node budget allows; a third of the cases one or two plies less
        let less = match case.depth { 4 => 1, 5 => 2, _ => 0 };
        let depth = adaptive_depth(p, self.budget).saturating_sub(less).max(1);
        let total = check_perft(p, depth)?;
        loc.eval();
        loc.class(match depth {
            1 => "depth1",
            2 => "depth2",
            3 => "depth3",
            4 => "depth4",
            5 => "depth5",
            _ => "depth6plus",
        });
        if depth >= 2 {
            loc.nontrivial(&(p.fen4(), depth));
        }
        loc.sample(|| json!({"fen": p.fen(), "depth": depth, "nodes": total}));
        Ok(())
    }
}

// -------------------------------------------------------------------- standard positions

pub struct PerftStandard;

impl DynProp for PerftStandard {
    fn name(&self) -> &'static str {
        "perft_standard"
    }
    fn run(&self, ctx: &Ctx, cases: u64) {
        // `cases` = node budget per corpus position
        let budget = cases as f64;
        let n = starts().len() as u64;
        par_range(ctx, "perft_standard", n, |i, loc| {
            let p = &starts()[i as usize];
            let d = adaptive_depth(p, budget);
            match check_perft(p, d) {
                Ok(total) => {
                    loc.eval();
                    loc.nontrivial(&(p.fen4(), d));
                    loc.sample(|| json!({"fen": p.fen(), "depth": d, "nodes": total}));
                    Ok(())
                }
                Err(m) => Err((json!({"fen": p.fen(), "depth": d}), m)),
            }
        });
    }
    fn replay(&self, _: &Ctx, case: &Value) -> Result<(), String> {
        let p = Pos::from_fen(case["fen"].as_str().ok_or("no fen")?).ok_or("bad fen")?;
        let d = case["depth"].as_u64().unwrap_or(2) as usize;
        let legal = p.legal();
        compare_moves(&p, &legal)?;
        check_perft(&p, d).map(|_| ())
    }
}

// ------------------------------------------------------------- exhaustive small families

/// All placements of K + X v K (X of either colour, any kind), both sides to move.
/// index -> (x colour, kind, stm, wk, bk, x square)
pub fn small_family_size() -> u64 {
    2 * 5 * 2 * 64 * 64 * 64
}

pub fn small_family_pos(i: u64) -> Option<Pos> {
    let xs = (i % 64) as usize;
    let bk = ((i / 64) % 64) as usize;
    let wk = ((i / 4096) % 64) as usize;
    let stm = if (i / 262144) % 2 == 0 { Col::W } else { Col::B };
    let kind = KINDS[((i / 524288) % 5) as usize];
    let xc = if (i / 2621440) % 2 == 0 { Col::W } else { Col::B };
    if wk == bk || xs == wk || xs == bk {
        return None;
    }
    if kind == Kind::P && (xs / 8 == 0 || xs / 8 == 7) {
        return None;
    }
    let mut p = Pos::empty(stm);
    p.b[wk] = Some((Col::W, Kind::K));
    p.b[bk] = Some((Col::B, Kind::K));
    p.b[xs] = Some((xc, kind));
    if !p.is_legal_position() {
        return None;
    }
    Some(p)
}

pub struct MovegenSmall;

impl DynProp for MovegenSmall {
    fn name(&self) -> &'static str {
        "movegen_small_families"
    }
    fn run(&self, ctx: &Ctx, cases: u64) {
        // cases = stride (1 = the complete families)
        let stride = cases.max(1);
        let n = small_family_size() / stride;
        let offset = if stride > 1 { ctx.seed % stride } else { 0 };
        par_range(ctx, "movegen_small_families", n, |j, loc| {
            let i = j * stride + offset;
            let Some(p) = small_family_pos(i) else { return Ok(()) };
            let legal = p.legal();
            loc.eval();
            if p.pseudo().len() != legal.len() {
                loc.nontrivial(&p.fen4());
            }
            if legal.is_empty() {
                loc.class(if p.in_check(p.stm) { "checkmate" } else { "stalemate" });
            }
            compare_moves(&p, &legal).map_err(|m| (json!({"fen": p.fen()}), m))
        });
        if stride == 1 {
            ctx.mark_exhaustive("all K+X v K placements (X any kind, either colour, both sides to move)");
        }
    }
    fn replay(&self, _: &Ctx, case: &Value) -> Result<(), String> {
        let p = Pos::from_fen(case["fen"].as_str().ok_or("no fen")?).ok_or("bad fen")?;
        compare_moves(&p, &p.legal())
    }
}

pub fn plan(ctx: &Ctx) -> Plan {
    let t = ctx.tier;
    Plan {
        props: vec![
            (Box::new(PerftStandard), t.pick(600_000, 60_000_000)),
            (Box::new(MovegenPlay { max_plies: 120 }), t.pick(150_000, 4_000_000)),
            (Box::new(MovegenBuild), t.pick(1_500_000, 20_000_000)),
            (Box::new(PerftPlay { budget: t.pick(60_000, 1_000_000) as f64 }), t.pick(6_000, 40_000)),
            (Box::new(MovegenSmall), 1),
            (Box::new(super::cli::PerftCli), t.pick(96, 2_000)),
            (Box::new(crate::fuzzdrv::target("rules_diff")), t.pick(0, 20_000)),
        ],
        rule: "positions come from weighted random legal play (<=120 plies) from 45 adversarial start positions, \
               from a constructive random builder of legal positions (two kings, <=14 more men, castling rights with \
               king and rook at home, constructed en-passant targets), from the start corpus itself and from the \
               K+X v K families (complete: exhaustive). For each position the sorted \
               multiset of weechess move attribute tuples is compared with an independent mailbox rules oracle; \
               perft totals and per-root-move subtotals likewise (library and CLI), at the deepest depth (1-7) a node budget allows for the position, so that sparse positions are walked 5-7 plies deep. Non-trivial = distinct 4-field \
               FEN where pseudo-legal != legal, or a castling right or en-passant target is set, or a pawn stands \
               on its 7th rank; perft cases count as non-trivial at depth >= 2.",
        assumptions: &[
            "the mailbox rules oracle is correct; it is anchored to the published perft counts of the six standard positions at every run (exit 2 on mismatch)",
            "positions are handed to weechess through Board::from(&ArrayMap) and State::new and read back through public accessors",
            "perft depth 0 is not asserted (the code documents leaf counting from depth 1)",
        ],
        self_test: super::oracle_self_test,
        post: None,
    }
}
