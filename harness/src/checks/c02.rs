//! C02 — applying a move yields the correct successor; selection by coordinates.

use super::c01::starts;
use super::Plan;
use crate::gen::{self, BuildCase, PlayCase};
use crate::glue;
use crate::oracle::rules::{Col, Kind, Mv, Pos};
use crate::runner::{Ctx, Local, Prop};
use proptest::prelude::*;
use serde::{Deserialize, Serialize};
use serde_json::json;
use weechess_core::{MoveGenerator, MoveQuery, State};

pub fn compare_state(what: &str, s: &State, want: &Pos) -> Result<(), String> {
    let got = glue::read_state(s);
    if got != *want {
        return Err(format!(
            "{}: position is '{}' but the rules give '{}'",
            what,
            got.fen(),
            want.fen()
        ));
    }
    let text = glue::fen_of(s);
    if text != want.fen() {
        return Err(format!(
            "{}: FEN written is '{}' but the position is '{}'",
            what,
            text,
            want.fen()
        ));
    }
    Ok(())
}

fn nontrivial_move(p: &Pos, m: &Mv) -> bool {
    m.cap.is_some()
        || m.ep
        || m.castle.is_some()
        || m.promo.is_some()
        || m.dbl
        || ((m.kind == Kind::K || m.kind == Kind::R) && p.cas.iter().any(|x| *x))
        || ([0usize, 7, 56, 63].contains(&m.to) && p.cas.iter().any(|x| *x))
}

fn class_of(m: &Mv) -> &'static str {
    if m.ep {
        "ep"
    } else if m.castle.is_some() {
        "castle"
    } else if m.promo.is_some() && m.cap.is_some() {
        "promo_capture"
    } else if m.promo.is_some() {
        "promotion"
    } else if m.cap.is_some() {
        "capture"
    } else if m.dbl {
        "double_step"
    } else {
        "quiet"
    }
}

/// Every legal move of `state` (whose meaning is `p`): successor from the move generator and
/// from `State::by_performing_move` against the oracle's `apply`.
pub fn check_all_successors(state: &State, p: &Pos, loc: &mut Local) -> Result<(), String> {
    let before = glue::fen_of(state);
    let legal = p.legal();
    let set = MoveGenerator::compute_legal_moves(state);
    for r in set.moves().iter() {
        let mv = glue::read_move(&r.0);
        let Some((_, want)) = legal.iter().find(|(m, _)| *m == mv) else {
            return Err(format!(
                "in '{}' the generator offers {:?}, which is not a legal move",
                p.fen(),
                mv
            ));
        };
        loc.eval();
        loc.class(class_of(&mv));
        if nontrivial_move(p, &mv) {
            loc.nontrivial(&(p.fen4(), mv));
        }
        compare_state(&format!("successor of '{}' by {} (move generator)", p.fen(), mv.lan()), &r.1, want)?;
        let again = State::by_performing_move(state, &r.0)
            .map_err(|e| format!("by_performing_move('{}', {}) failed: {}", p.fen(), mv.lan(), e))?;
        compare_state(&format!("successor of '{}' by {} (by_performing_move)", p.fen(), mv.lan()), &again, want)?;
    }
    if set.moves().len() != legal.len() {
        return Err(format!(
            "'{}' has {} legal moves, the generator offers {}",
            p.fen(),
            legal.len(),
            set.moves().len()
        ));
    }
    let after = glue::fen_of(state);
    if before != after {
        return Err(format!("input state changed from '{}' to '{}'", before, after));
    }
    Ok(())
}

// ------------------------------------------------------------------------ lock-step play

pub struct SuccessorPlay {
    pub max_plies: usize,
}

impl Prop for SuccessorPlay {
    type Case = PlayCase;
    fn name(&self) -> &'static str {
        "successor_play"
    }
    fn strategy(&self, _: &Ctx) -> BoxedStrategy<PlayCase> {
        gen::play_strategy(self.max_plies).boxed()
    }
    fn test(&self, _: &Ctx, case: &PlayCase, loc: &mut Local) -> Result<(), String> {
        let played = gen::play(starts(), case);
        // the weechess state evolves from its own successors
        let mut state = glue::state_direct(&played.positions[0]);
        for (i, p) in played.positions.iter().enumerate() {
            compare_state(&format!("position after {} plies", i), &state, p)?;
            check_all_successors(&state, p, loc)?;
            if i < played.moves.len() {
                let m = played.moves[i];
                let set = MoveGenerator::compute_legal_moves(&state);
                let Some(r) = set.moves().iter().find(|r| glue::read_move(&r.0) == m) else {
                    return Err(format!("legal move {:?} of '{}' is not generated", m, p.fen()));
                };
                state = r.1.clone();
            }
        }
        loc.sample(|| {
            json!({"start": played.positions[0].fen(),
                   "moves": played.moves.iter().map(|m| m.lan()).collect::<Vec<_>>()})
        });
        Ok(())
    }
}

pub struct SuccessorBuild;

impl Prop for SuccessorBuild {
    type Case = BuildCase;
    fn name(&self) -> &'static str {
        "successor_build"
    }
    fn strategy(&self, _: &Ctx) -> BoxedStrategy<BuildCase> {
        gen::build_strategy(14).boxed()
    }
    fn test(&self, _: &Ctx, case: &BuildCase, loc: &mut Local) -> Result<(), String> {
        let Some(p) = gen::build(case) else {
            loc.class("rejected_build");
            return Ok(());
        };
        let state = glue::state_direct(&p);
        check_all_successors(&state, &p, loc)?;
        loc.sample(|| json!({"fen": p.fen()}));
        Ok(())
    }
}

// -------------------------------------------------------------- selection by coordinates

#[derive(Debug, Clone, Serialize, Deserialize)]
pub struct CoordCase {
    pub game: PlayCase,
}

pub struct CoordSelect;

fn query(from: usize, to: usize, promo: Option<Kind>) -> MoveQuery {
    let mut q = MoveQuery::by_moving_from_to(glue::o_sq(from), glue::o_sq(to));
    if let Some(k) = promo {
        q.set_promotion(glue::o_kind(k));
    }
    q
}

/// All 64x64 coordinate pairs without letter, and with each letter where a pawn of the side
/// to move standing on `from` would reach the last rank on `to`.
pub fn check_all_coordinates(state: &State, p: &Pos, loc: &mut Local) -> Result<(), String> {
    let legal = p.legal();
    let before = glue::fen_of(state);
    let last = if p.stm == Col::W { 7 } else { 0 };
    for from in 0..64 {
        for to in 0..64 {
            let mut promos: Vec<Option<Kind>> = vec![None];
            if p.b[from] == Some((p.stm, Kind::P)) && to / 8 == last {
                promos.extend([Kind::Q, Kind::R, Kind::B, Kind::N].map(Some));
            }
            for promo in promos {
                let matches: Vec<&(Mv, Pos)> = legal
                    .iter()
                    .filter(|(m, _)| m.from == from && m.to == to && m.promo == promo)
                    .collect();
                let r = State::by_performing_moves(state, &[query(from, to, promo)]);
                loc.eval();
                match (matches.len(), r) {
                    (1, Ok(s)) => {
                        loc.class("selected");
                        loc.nontrivial(&(p.fen4(), from, to, promo));
                        compare_state(
                            &format!("'{}' after coordinates {:?}", p.fen(), (from, to, promo)),
                            &s,
                            &matches[0].1,
                        )?;
                    }
                    (0, Err(_)) => {
                        loc.class("rejected");
                    }
                    (1, Err(e)) => {
                        return Err(format!(
                            "'{}': coordinates {}{}{:?} denote the legal move {:?} but were rejected ({})",
                            p.fen(),
                            crate::oracle::rules::sq_name(from),
                            crate::oracle::rules::sq_name(to),
                            promo,
                            matches[0].0,
                            e
                        ));
                    }
                    (0, Ok(s)) => {
                        return Err(format!(
                            "'{}': coordinates {}{}{:?} denote no legal move but were accepted, giving '{}'",
                            p.fen(),
                            crate::oracle::rules::sq_name(from),
                            crate::oracle::rules::sq_name(to),
                            promo,
                            glue::fen_of(&s)
                        ));
                    }
                    _ => unreachable!("oracle has two legal moves with the same coordinates"),
                }
            }
        }
    }
    if glue::fen_of(state) != before {
        return Err(format!("input state changed from '{}'", before));
    }
    Ok(())
}

impl Prop for CoordSelect {
    type Case = CoordCase;
    fn name(&self) -> &'static str {
        "coordinate_selection"
    }
    fn strategy(&self, _: &Ctx) -> BoxedStrategy<CoordCase> {
        gen::play_strategy(60).prop_map(|game| CoordCase { game }).boxed()
    }
    fn test(&self, _: &Ctx, case: &CoordCase, loc: &mut Local) -> Result<(), String> {
        let played = gen::play(starts(), &case.game);
        let p = played.positions.last().unwrap();
        let state = glue::state_direct(p);
        check_all_coordinates(&state, p, loc)?;
        loc.sample(|| json!({"fen": p.fen()}));
        Ok(())
    }
}

// ------------------------------------------------------------------------- move sequences

#[derive(Debug, Clone, Serialize, Deserialize)]
pub struct SeqCase {
    pub game: PlayCase,
    /// where to cut the prefix (start of the sequence)
    pub cut: u16,
    /// position at which an illegal element is inserted (if `spoil`)
    pub spoil_at: u16,
    pub spoil: bool,
    pub spoil_coords: (u8, u8),
}

pub struct Sequences;

impl Prop for Sequences {
    type Case = SeqCase;
    fn name(&self) -> &'static str {
        "move_sequences"
    }
    fn strategy(&self, _: &Ctx) -> BoxedStrategy<SeqCase> {
        (
            gen::play_strategy(80),
            any::<u16>(),
            any::<u16>(),
            any::<bool>(),
            (0u8..64, 0u8..64),
        )
            .prop_map(|(game, cut, spoil_at, spoil, spoil_coords)| SeqCase {
                game,
                cut,
                spoil_at,
                spoil,
                spoil_coords,
            })
            .boxed()
    }
    fn test(&self, _: &Ctx, case: &SeqCase, loc: &mut Local) -> Result<(), String> {
        let played = gen::play(starts(), &case.game);
        let n = played.moves.len();
        let cut = crate::runner::pick_index(case.cut, n + 1);
        let base = &played.positions[cut];
        let state = glue::state_direct(base);
        let mut queries: Vec<MoveQuery> = played.moves[cut..]
            .iter()
            .map(|m| query(m.from, m.to, m.promo))
            .collect();
        let before = glue::fen_of(&state);
        loc.eval();
        if !case.spoil {
            let end = State::by_performing_moves(&state, &queries).map_err(|e| {
                format!(
                    "legal sequence {:?} from '{}' rejected: {}",
                    played.moves[cut..].iter().map(|m| m.lan()).collect::<Vec<_>>(),
                    base.fen(),
                    e
                )
            })?;
            compare_state(
                &format!("'{}' after {} coordinate moves", base.fen(), queries.len()),
                &end,
                played.positions.last().unwrap(),
            )?;
            loc.class("legal_sequence");
            if queries.len() >= 2 {
                loc.nontrivial(&(base.fen4(), played.moves[cut..].to_vec()));
            }
        } else {
            // insert a pair that is no legal move in the position where it is inserted
            let at = cut + crate::runner::pick_index(case.spoil_at, n - cut + 1);
            let pos_at = &played.positions[at];
            let (f, t) = (case.spoil_coords.0 as usize, case.spoil_coords.1 as usize);
            if pos_at.legal().iter().any(|(m, _)| m.from == f && m.to == t) {
                loc.class("spoiler_was_legal");
                return Ok(());
            }
            queries.insert(at - cut, query(f, t, None));
            if let Ok(s) = State::by_performing_moves(&state, &queries) {
                return Err(format!(
                    "sequence from '{}' with the illegal element {}{} at index {} was accepted, giving '{}'",
                    base.fen(),
                    crate::oracle::rules::sq_name(f),
                    crate::oracle::rules::sq_name(t),
                    at - cut,
                    glue::fen_of(&s)
                ));
            }
            loc.class("spoiled_sequence");
            loc.nontrivial(&(base.fen4(), at, f, t));
        }
        if glue::fen_of(&state) != before {
            return Err(format!("input state changed from '{}'", before));
        }
        Ok(())
    }
}

pub fn plan(ctx: &Ctx) -> Plan {
    let t = ctx.tier;
    Plan {
        props: vec![
            (Box::new(SuccessorPlay { max_plies: 200 }), t.pick(25_000, 600_000)),
            (Box::new(SuccessorBuild), t.pick(300_000, 6_000_000)),
            (Box::new(CoordSelect), t.pick(8_000, 200_000)),
            (Box::new(Sequences), t.pick(60_000, 1_500_000)),
        ],
        rule: "lock-step random games (<=200 plies, weechess evolving from its own successors) and constructed \
               legal positions; for every legal move the successor delivered by the move generator and by \
               State::by_performing_move is compared field by field (64 squares, side, 4 rights, ep target, both \
               clocks) and as FEN text with an independent oracle's apply(); all 64x64 coordinate pairs (plus the \
               four letters where a pawn reaches the last rank) must select exactly the legal move with that triple \
               or be rejected; move sequences with and without one inserted illegal element. Non-trivial = distinct \
               (FEN, move) with capture, ep, castle, promotion, double step, king/rook move or corner capture while \
               a right is set; selected coordinate triples; sequences of >= 2 moves; spoiled sequences.",
        assumptions: &[
            "the mailbox rules oracle is correct (anchored to published perft counts at every run)",
            "clocks stay far below usize::MAX (reachable by play only); extreme counters belong to C11",
        ],
        self_test: super::oracle_self_test,
        post: None,
    }
}
