//! C15 — the transposition table is a faithful bounded map (model-based, routing-agnostic).

use super::Plan;
use crate::glue::{o_col, o_kind, o_sq};
use crate::oracle::rules::{Col, KINDS};
use crate::runner::{pick_index, Ctx, Local, Prop};
use proptest::prelude::*;
use serde::{Deserialize, Serialize};
use serde_json::json;
use std::collections::{BTreeMap, BTreeSet};
use weechess_core::{Move, PieceIndex};
use weechess_engine::searcher::verif::{Table, TableEntry};

const TABLES: [usize; 5] = [1, 2, 3, 8, 128];
const BUCKETS: [usize; 5] = [1, 2, 7, 64, 1024];

#[derive(Debug, Clone, Copy, Serialize, Deserialize)]
pub enum Op {
    /// (key pick, actor)
    Insert(u16, u8),
    Find(u16, u8),
    Entries,
    /// the same key stored many times in a row (2 .. 1024 times; 255/256/257 among the counts)
    #[serde(alias = "Hammer")]
    Hammer(u16, u8),
}

pub const HAMMER_COUNTS: [usize; 8] = [2, 16, 255, 256, 257, 511, 512, 1024];

#[derive(Debug, Clone, Serialize, Deserialize)]
pub struct Case {
    pub tables: u8,
    pub buckets: u8,
    /// how the key universe is built
    pub scheme: u8,
    pub universe: u8,
    pub key_seed: u64,
    pub ops: Vec<Op>,
}

fn gcd(a: u64, b: u64) -> u64 {
    if b == 0 { a } else { gcd(b, a % b) }
}

/// Key universes built to collide.
pub fn keys(case: &Case, tables: usize, buckets: usize) -> Vec<u64> {
    let n = 1 + case.universe as usize % 64;
    let (t, b) = (tables as u64, buckets as u64);
    let lcm = t / gcd(t, b) * b;
    let mut x = case.key_seed;
    let mut next = || crate::runner::splitmix(&mut x);
    let base = next();
    let mut v: Vec<u64> = match case.scheme % 6 {
        0 => (0..n.min(4)).map(|_| next()).collect(),                          // few distinct keys
        1 => (0..n).map(|i| (base % t).wrapping_add(t.wrapping_mul(i as u64 + (next() % 1000) * 64))).collect(), // equal modulo tables
        2 => (0..n).map(|i| (base % b).wrapping_add(b.wrapping_mul(i as u64 + (next() % 1000) * 64))).collect(), // equal modulo buckets
        3 => (0..n).map(|i| (base % lcm).wrapping_add(lcm.wrapping_mul(i as u64 + 1))).collect(),                // bucket-aligned
        4 => (0..n).map(|i| (base & 0xffff_ffff) | ((i as u64 + 1) << 32)).collect(),                            // high bits only
        _ => (0..n).map(|_| next()).collect(),                                 // random 64-bit keys
    };
    v.sort();
    v.dedup();
    v
}

/// A payload that encodes (key index, op index, actor) in every field.
pub fn payload(key_idx: usize, op_idx: usize, actor: u8) -> TableEntry {
    let col = if op_idx % 2 == 0 { Col::W } else { Col::B };
    let kind = KINDS[(op_idx / 2) % 6];
    let mv = Move::by_moving(
        PieceIndex::new(o_col(col), o_kind(kind)),
        o_sq(key_idx % 64),
        o_sq((op_idx * 7 + actor as usize) % 64),
    );
    TableEntry {
        kind: (op_idx % 3) as u8,
        performed_move: mv,
        depth: op_idx,
        max_depth: key_idx,
        evaluation: (op_idx as i32) * 256 + actor as i32,
    }
}

pub struct ModelBased;

impl Prop for ModelBased {
    type Case = Case;
    fn name(&self) -> &'static str {
        "table_model"
    }
    fn strategy(&self, _: &Ctx) -> BoxedStrategy<Case> {
        let op = prop_oneof![
            5 => (any::<u16>(), 0u8..4).prop_map(|(k, a)| Op::Insert(k, a)),
            1 => (any::<u16>(), 0u8..8).prop_map(|(k, n)| Op::Hammer(k, n)),
            3 => (any::<u16>(), 0u8..4).prop_map(|(k, a)| Op::Find(k, a)),
            1 => Just(Op::Entries),
        ];
        (0u8..5, 0u8..5, 0u8..6, any::<u8>(), any::<u64>(), prop::collection::vec(op, 0..400))
            .prop_map(|(tables, buckets, scheme, universe, key_seed, ops)| Case { tables, buckets, scheme, universe, key_seed, ops })
            .boxed()
    }
    fn test(&self, _: &Ctx, case: &Case, loc: &mut Local) -> Result<(), String> {
        let tables = TABLES[case.tables as usize % 5];
        let mut buckets = BUCKETS[case.buckets as usize % 5];
        if tables * buckets > 16384 && case.key_seed % 64 != 0 {
            // the largest geometries cost tens of MB each: keep them rare
            buckets = 64;
        }
        let ks = keys(case, tables, buckets);
        let table = Table::new(tables, buckets);
        let cap = tables * buckets * 8;
        if table.max_entries() != cap {
            return Err(format!("max_entries() = {} for {} tables x {} buckets x 8 slots", table.max_entries(), tables, buckets));
        }
        let mut latest: BTreeMap<usize, TableEntry> = BTreeMap::new();
        let mut present: BTreeSet<usize> = BTreeSet::new();
        let mut displacements = 0;
        let mut overwrites = 0;
        let ctxt = |i: usize| format!("{} tables x {} buckets, scheme {}, {} keys, after op {}", tables, buckets, case.scheme % 6, ks.len(), i);
        // a hammer is so many plain inserts of one key, each checked like any other (at most two per case)
        let mut ops: Vec<Op> = vec![];
        let mut hammers = 0;
        for op in case.ops.iter() {
            match *op {
                Op::Hammer(k, n) if hammers < 2 => {
                    hammers += 1;
                    for r in 0..HAMMER_COUNTS[n as usize % HAMMER_COUNTS.len()] {
                        ops.push(Op::Insert(k, (r % 4) as u8));
                    }
                }
                Op::Hammer(k, _) => ops.push(Op::Insert(k, 0)),
                o => ops.push(o),
            }
        }
        if hammers > 0 {
            loc.class("same_key_stored_many_times_in_a_row");
        }
        for (i, op) in ops.iter().enumerate() {
            loc.eval();
            match *op {
                Op::Insert(k, actor) => {
                    let ki = pick_index(k, ks.len());
                    let e = payload(ki, i, actor);
                    let was_present = present.contains(&ki);
                    let before = table.entries();
                    table.insert(ks[ki], e);
                    latest.insert(ki, e);
                    // (2) directly after insert(k, e), find(k) = e
                    match table.find(ks[ki]) {
                        Some(x) if x == e => {}
                        other => return Err(format!("{}: find directly after insert of key {:#x} returned {:?}, expected {:?}", ctxt(i), ks[ki], other, e)),
                    }
                    // observe which keys are retrievable now
                    let mut now = BTreeSet::new();
                    for (kj, want) in latest.iter() {
                        match table.find(ks[*kj]) {
                            None => {}
                            Some(x) if x == *want => { now.insert(*kj); }
                            Some(x) => return Err(format!("{}: find({:#x}) returned {:?}, but the latest entry stored under that key is {:?}", ctxt(i), ks[*kj], x, want)),
                        }
                    }
                    let lost: Vec<usize> = present.iter().filter(|k| !now.contains(k)).cloned().collect();
                    let resurrected: Vec<usize> = now.iter().filter(|k| !present.contains(k) && **k != ki).cloned().collect();
                    if !resurrected.is_empty() {
                        return Err(format!("{}: keys {:?} became retrievable again without being inserted", ctxt(i), resurrected));
                    }
                    if was_present {
                        overwrites += 1;
                        // (3) a same-key overwrite displaces nothing and does not change the count
                        if !lost.is_empty() {
                            return Err(format!("{}: overwriting key {:#x} made {} other key(s) unretrievable", ctxt(i), ks[ki], lost.len()));
                        }
                        if table.entries() != before {
                            return Err(format!("{}: overwriting key {:#x} changed entries() from {} to {}", ctxt(i), ks[ki], before, table.entries()));
                        }
                    } else {
                        // (5) a new key either raises the count by one or displaces exactly one key
                        match lost.len() {
                            0 => {
                                if table.entries() != before + 1 {
                                    return Err(format!("{}: inserting new key {:#x} displaced nothing but entries() went {} -> {}", ctxt(i), ks[ki], before, table.entries()));
                                }
                            }
                            1 => {
                                displacements += 1;
                                if table.entries() != before {
                                    return Err(format!("{}: inserting new key {:#x} displaced one key but entries() went {} -> {}", ctxt(i), ks[ki], before, table.entries()));
                                }
                                // (6) displacement needs a full bucket: at least 8 resident keys
                                if present.len() < 8 {
                                    return Err(format!("{}: key {:#x} was displaced although only {} keys were resident (a bucket holds 8)", ctxt(i), ks[lost[0]], present.len()));
                                }
                            }
                            n => return Err(format!("{}: one insert made {} keys unretrievable", ctxt(i), n)),
                        }
                    }
                    present = now;
                }
                Op::Find(k, _) => {
                    let ki = pick_index(k, ks.len());
                    let got = table.find(ks[ki]);
                    // (1) nothing, or the latest entry stored under exactly that key; and a
                    // find never changes what is retrievable
                    let want_present = present.contains(&ki);
                    match (got, latest.get(&ki)) {
                        (None, _) if !want_present => {}
                        (Some(x), Some(w)) if x == *w && want_present => {}
                        (got, _) => return Err(format!("{}: find({:#x}) returned {:?}; model: resident = {}, latest = {:?}", ctxt(i), ks[ki], got, want_present, latest.get(&ki))),
                    }
                }
                Op::Entries | Op::Hammer(..) => {}
            }
            // (4) entries() = number of retrievable keys <= capacity
            if table.entries() != present.len() {
                return Err(format!("{}: entries() = {} but {} keys are retrievable", ctxt(i), table.entries(), present.len()));
            }
            if table.entries() > cap {
                return Err(format!("{}: entries() = {} exceeds capacity {}", ctxt(i), table.entries(), cap));
            }
        }
        if displacements > 0 {
            loc.class("with_displacement");
        }
        if overwrites > 0 {
            loc.class("with_overwrite");
        }
        if displacements > 0 && overwrites > 0 {
            loc.nontrivial(&format!("{:?}", case));
        }
        loc.class(match case.scheme % 6 { 0 => "few_keys", 1 => "equal_mod_tables", 2 => "equal_mod_buckets", 3 => "bucket_aligned", 4 => "high_bits_only", _ => "random_keys" });
        loc.sample(|| json!({"tables": tables, "buckets": buckets, "scheme": case.scheme % 6, "keys": ks.len(), "ops": case.ops.len(), "displacements": displacements, "overwrites": overwrites}));
        Ok(())
    }
}

// ------------------------------------------------------------------------- real threads

#[derive(Debug, Clone, Serialize, Deserialize)]
pub struct ThreadCase {
    /// no displacement possible: at most 8 threads, one owned key each, nothing else inserted;
    /// every insert must then be retrievable at once
    #[serde(default)]
    pub tight: bool,
    pub tables: u8,
    pub buckets: u8,
    pub scheme: u8,
    pub universe: u8,
    pub key_seed: u64,
    pub threads: u8,
    /// per thread: (key pick, is_insert, use shared key)
    pub ops: Vec<Vec<(u16, bool, bool)>>,
}

pub struct RealThreads;

impl Prop for RealThreads {
    type Case = ThreadCase;
    fn name(&self) -> &'static str {
        "table_threads"
    }
    fn parallelism(&self, ctx: &Ctx) -> usize {
        (ctx.threads / 4).max(1)
    }
    fn max_shrink_iters(&self) -> u32 {
        300
    }
    fn strategy(&self, _: &Ctx) -> BoxedStrategy<ThreadCase> {
        (0u8..5, 0u8..4, 0u8..6, any::<u8>(), any::<u64>(), 2u8..=32, proptest::bool::weighted(0.3))
            .prop_flat_map(|(tables, buckets, scheme, universe, key_seed, threads, tight)| {
                let threads = if tight { 2 + threads % 7 } else { threads };
                prop::collection::vec(
                    prop::collection::vec((any::<u16>(), any::<bool>(), any::<bool>()), 1..120),
                    threads as usize,
                )
                .prop_map(move |ops| ThreadCase { tight, tables, buckets, scheme, universe, key_seed, threads, ops })
            })
            .boxed()
    }
    fn test(&self, _: &Ctx, case: &ThreadCase, loc: &mut Local) -> Result<(), String> {
        let tables = TABLES[case.tables as usize % 5];
        let buckets = BUCKETS[case.buckets as usize % 5];
        let kc = Case { tables: case.tables, buckets: case.buckets, scheme: case.scheme, universe: case.universe, key_seed: case.key_seed, ops: vec![] };
        let shared = keys(&kc, tables, buckets);
        let nthreads = case.ops.len();
        // thread-owned keys: same residues as the shared ones but distinct high parts
        let owned = |t: usize| -> Vec<u64> {
            let lcm = (tables as u64) / gcd(tables as u64, buckets as u64) * buckets as u64;
            let n = if case.tight { 1 } else { 8u64 };
            (0..n).map(|i| shared[0].wrapping_add(lcm.wrapping_mul(1_000_003 * (t as u64 + 1) + i))).collect()
        };
        let tight = case.tight;
        let table = Table::new(tables, buckets);
        let errors: std::sync::Mutex<Vec<String>> = std::sync::Mutex::new(vec![]);
        let start = std::sync::Barrier::new(nthreads);
        std::thread::scope(|scope| {
            for t in 0..nthreads {
                let (table, errors, start, shared) = (&table, &errors, &start, &shared);
                let ops = &case.ops[t];
                let mine = owned(t);
                scope.spawn(move || {
                    start.wait();
                    let mut my_latest: BTreeMap<usize, TableEntry> = BTreeMap::new();
                    for (i, (k, ins, use_shared)) in ops.iter().enumerate() {
                        if *use_shared {
                            let ki = pick_index(*k, shared.len());
                            if *ins && !tight {
                                table.insert(shared[ki], payload(ki, i, t as u8));
                            } else if let Some(x) = table.find(shared[ki]) {
                                // must be a payload some thread stored under exactly this key
                                let actor = (x.evaluation & 0xff) as usize;
                                let opi = (x.evaluation >> 8) as usize;
                                if x.max_depth != ki || actor >= nthreads || x != payload(ki, opi, actor as u8) {
                                    errors.lock().unwrap().push(format!("find({:#x}) returned {:?}, which nobody stored under that key", shared[ki], x));
                                    return;
                                }
                            }
                        } else {
                            let ki = pick_index(*k, mine.len());
                            if *ins {
                                let e = payload(1000 + ki, i, t as u8);
                                table.insert(mine[ki], e);
                                my_latest.insert(ki, e);
                                if tight && table.find(mine[ki]) != Some(e) {
                                    // at most 8 keys exist in the whole table: nothing can be displaced
                                    errors.lock().unwrap().push(format!("with at most 8 keys in the table, key {:#x} is not retrievable directly after its insert (got {:?})", mine[ki], table.find(mine[ki])));
                                    return;
                                }
                            } else {
                                match (table.find(mine[ki]), my_latest.get(&ki)) {
                                    (None, _) => {}
                                    (Some(x), Some(w)) if x == *w => {}
                                    (Some(x), w) => {
                                        errors.lock().unwrap().push(format!("thread-owned key {:#x}: find returned {:?}, the owner's latest is {:?}", mine[ki], x, w));
                                        return;
                                    }
                                }
                            }
                        }
                    }
                });
            }
        });
        if let Some(e) = errors.into_inner().unwrap().into_iter().next() {
            return Err(format!("{} threads on {} tables x {} buckets: {}", nthreads, tables, buckets, e));
        }
        // after the join: the count equals the number of retrievable keys and respects capacity
        let mut all: Vec<u64> = shared.clone();
        for t in 0..nthreads {
            all.extend(owned(t));
        }
        all.sort();
        all.dedup();
        let retrievable = all.iter().filter(|k| table.find(**k).is_some()).count();
        if table.entries() != retrievable || retrievable > table.max_entries() {
            return Err(format!("{} threads on {} tables x {} buckets: entries() = {}, retrievable keys = {}, capacity = {}", nthreads, tables, buckets, table.entries(), retrievable, table.max_entries()));
        }
        loc.eval();
        loc.evals_n(case.ops.iter().map(|o| o.len() as u64).sum());
        loc.nontrivial(&format!("{:?}", case));
        if tight {
            loc.class("tight_no_displacement_possible");
        }
        loc.class(if nthreads >= 16 { "threads_16_32" } else if nthreads >= 4 { "threads_4_15" } else { "threads_2_3" });
        loc.sample(|| json!({"threads": nthreads, "tables": tables, "buckets": buckets, "ops_per_thread": case.ops.iter().map(|o| o.len()).collect::<Vec<_>>()}));
        Ok(())
    }
}

pub fn plan(ctx: &Ctx) -> Plan {
    let t = ctx.tier;
    Plan {
        props: vec![
            (Box::new(ModelBased), t.pick(150_000, 4_000_000)),
            (Box::new(RealThreads), t.pick(1_200, 40_000)),
            (Box::new(crate::fuzzdrv::target("tt_ops")), t.pick(0, 150_000)),
        ],
        rule: "model-based: geometry (tables, buckets) in {1,2,3,8,128} x {1,2,7,64,1024}; op lists (0-400) of insert / \
               find / entries, tagged with an actor, over key universes built to collide (few keys; equal modulo tables; \
               equal modulo buckets; aligned modulo their lcm; differing only in high bits; random); payloads encode (key, \
               op index, actor). After every op the real table (through the cfg hook around the private \
               TranspositionTableAccess) is compared with a routing-agnostic reference model: find = nothing or the latest \
               payload under exactly that key; insert then find returns it; keys vanish only at an insert of a different \
               key, at most one per insert and never with fewer than 8 resident keys; entries() = number of retrievable \
               keys <= tables*buckets*8. Real threads (2-32, barrier start) with thread-owned and shared keys: every find \
               returns nothing or a payload somebody stored under that key (the owner's latest for owned keys); in \
               'tight' cases (<= 8 threads, one key each, so nothing can be displaced) every insert must be retrievable \
               at once; counts consistent after the join - stress without schedule control. Non-trivial = distinct op lists with >= 1 \
               displacement and >= 1 same-key overwrite; every multi-thread case.",
        assumptions: &[
            "every table operation is atomic under its sub-table lock, so actor-tagged sequential op lists are the schedule space at operation granularity",
            "the real-thread part does not control the schedule (stress only)",
        ],
        self_test: super::no_self_test,
        post: None,
    }
}
