//! C10 — attacked-square sets and check detection; independence of query order and clones.

use super::c01::starts;
use super::Plan;
use crate::gen::{self, BuildCase, PlayCase};
use crate::glue::{self, bb, o_col};
use crate::oracle::rules::{Col, Kind, Pos};
use crate::runner::{pick_index, Ctx, Local, Prop};
use proptest::prelude::*;
use serde::{Deserialize, Serialize};
use serde_json::json;
use weechess_core::{MoveGenerator, State};

#[derive(Debug, Clone, Serialize, Deserialize)]
pub enum Source {
    Play(PlayCase),
    Build(BuildCase),
    /// arbitrary placement: (piece code 0..12, square); pawns on back ranks and missing or
    /// multiple kings allowed
    Arbitrary(Vec<(u8, u8)>, bool),
}

#[derive(Debug, Clone, Copy, Serialize, Deserialize)]
pub enum Op {
    /// (object index pick, colour)
    Attacks(u16, bool),
    PawnAttacks(u16, bool),
    BoardCheck(u16, bool),
    StateCheck(u16),
    Clone(u16),
    /// fills caches of successors; pushes the pick-th successor as a new object
    LegalMoves(u16, u16),
}

#[derive(Debug, Clone, Serialize, Deserialize)]
pub struct Case {
    pub source: Source,
    pub ops: Vec<Op>,
}

fn source_strategy() -> impl Strategy<Value = Source> {
    prop_oneof![
        3 => gen::play_strategy(80).prop_map(Source::Play),
        3 => gen::build_strategy(14).prop_map(Source::Build),
        3 => (prop::collection::vec((0u8..12, 0u8..64), 0..=32), any::<bool>()).prop_map(|(v, b)| Source::Arbitrary(v, b)),
    ]
}

fn op_strategy() -> impl Strategy<Value = Op> {
    prop_oneof![
        4 => (any::<u16>(), any::<bool>()).prop_map(|(i, c)| Op::Attacks(i, c)),
        3 => (any::<u16>(), any::<bool>()).prop_map(|(i, c)| Op::PawnAttacks(i, c)),
        3 => (any::<u16>(), any::<bool>()).prop_map(|(i, c)| Op::BoardCheck(i, c)),
        2 => any::<u16>().prop_map(Op::StateCheck),
        3 => any::<u16>().prop_map(Op::Clone),
        1 => (any::<u16>(), any::<u16>()).prop_map(|(i, j)| Op::LegalMoves(i, j)),
    ]
}

pub fn source_pos(src: &Source) -> Option<(Pos, bool)> {
    match src {
        Source::Play(c) => Some((gen::play(starts(), c).positions.pop().unwrap(), true)),
        Source::Build(c) => gen::build(c).map(|p| (p, true)),
        Source::Arbitrary(v, black) => {
            let mut p = Pos::empty(if *black { Col::B } else { Col::W });
            for (code, sq) in v {
                let k = [Kind::P, Kind::N, Kind::B, Kind::R, Kind::Q, Kind::K][(*code % 6) as usize];
                let c = if *code < 6 { Col::W } else { Col::B };
                p.b[*sq as usize] = Some((c, k));
            }
            Some((p, false))
        }
    }
}

fn col(b: bool) -> Col {
    if b { Col::B } else { Col::W }
}

pub struct AttackSets;

impl Prop for AttackSets {
    type Case = Case;
    fn name(&self) -> &'static str {
        "attack_sets_and_check"
    }
    fn strategy(&self, _: &Ctx) -> BoxedStrategy<Case> {
        (source_strategy(), prop::collection::vec(op_strategy(), 1..24))
            .prop_map(|(source, ops)| Case { source, ops })
            .boxed()
    }
    fn test(&self, _: &Ctx, case: &Case, loc: &mut Local) -> Result<(), String> {
        let Some((p0, legal_domain)) = source_pos(&case.source) else {
            loc.class("rejected_build");
            return Ok(());
        };
        // pool of (weechess object, its meaning)
        let mut pool: Vec<(State, Pos)> = vec![(glue::state_direct(&p0), p0.clone())];
        let mut queried_both = [false, false];
        let mut cloned_after_query = false;
        let mut any_query = false;
        for op in case.ops.iter() {
            loc.eval();
            match *op {
                Op::Attacks(i, c) | Op::PawnAttacks(i, c) => {
                    let pawns = matches!(op, Op::PawnAttacks(..));
                    let (s, p) = &pool[pick_index(i, pool.len())];
                    let got = if pawns {
                        bb(s.board().colored_pawn_attacks(o_col(col(c))))
                    } else {
                        bb(s.board().colored_attacks(o_col(col(c))))
                    };
                    let want = p.attack_set(col(c), pawns);
                    if got != want {
                        return Err(format!(
                            "{} attacked by {:?} in '{}': reported {:#018x}, union of piece attacks minus own squares {:#018x}",
                            if pawns { "pawn-attacked squares" } else { "squares" },
                            col(c),
                            p.fen(),
                            got,
                            want
                        ));
                    }
                    queried_both[c as usize] = true;
                    any_query = true;
                    loc.class(if pawns { "pawn_attacks" } else { "attacks" });
                }
                Op::BoardCheck(i, c) => {
                    let (s, p) = &pool[pick_index(i, pool.len())];
                    if p.count(col(c), Kind::K) != 1 {
                        loc.class("check_skipped_no_single_king");
                        continue;
                    }
                    let got = s.board().is_check(o_col(col(c)));
                    let want = p.in_check(col(c));
                    if got != want {
                        return Err(format!("is_check({:?}) of '{}' = {}, by the rules {}", col(c), p.fen(), got, want));
                    }
                    any_query = true;
                    loc.class(if want { "in_check" } else { "not_in_check" });
                }
                Op::StateCheck(i) => {
                    let (s, p) = &pool[pick_index(i, pool.len())];
                    if p.count(p.stm, Kind::K) != 1 {
                        continue;
                    }
                    let got = s.is_check();
                    let want = p.in_check(p.stm);
                    if got != want {
                        return Err(format!("State::is_check of '{}' = {}, by the rules {}", p.fen(), got, want));
                    }
                    any_query = true;
                }
                Op::Clone(i) => {
                    let k = pick_index(i, pool.len());
                    let c = (pool[k].0.clone(), pool[k].1.clone());
                    pool.push(c);
                    if any_query {
                        cloned_after_query = true;
                    }
                    loc.class("clone");
                }
                Op::LegalMoves(i, j) => {
                    if !legal_domain {
                        continue;
                    }
                    let k = pick_index(i, pool.len());
                    let set = MoveGenerator::compute_legal_moves(&pool[k].0);
                    let legal = pool[k].1.legal();
                    if set.moves().is_empty() || legal.is_empty() {
                        continue;
                    }
                    let r = &set.moves()[pick_index(j, set.moves().len())];
                    let mv = glue::read_move(&r.0);
                    let Some((_, n)) = legal.iter().find(|(m, _)| *m == mv) else {
                        return Err(format!("'{}': generated move {:?} is not legal", pool[k].1.fen(), mv));
                    };
                    // the successor arrives with caches already filled by the legality filter
                    pool.push((r.1.clone(), n.clone()));
                    loc.class("successor_with_warm_cache");
                }
            }
        }
        if queried_both[0] && queried_both[1] && cloned_after_query {
            loc.nontrivial(&(p0.fen4(), format!("{:?}", case.ops)));
        }
        let blocked = (0..64).any(|s| {
            matches!(p0.b[s], Some((_, Kind::B | Kind::R | Kind::Q)))
                && (p0.piece_attacks(s) & (0..64).filter(|t| p0.b[*t].is_some()).fold(0u64, |m, t| m | (1 << t))) != 0
        });
        if blocked {
            loc.class("has_blocked_slider");
        }
        loc.class(match case.source {
            Source::Play(_) => "source_play",
            Source::Build(_) => "source_build",
            Source::Arbitrary(..) => "source_arbitrary",
        });
        loc.sample(|| json!({"position": p0.fen(), "ops": format!("{:?}", case.ops)}));
        Ok(())
    }
}

pub fn plan(ctx: &Ctx) -> Plan {
    let t = ctx.tier;
    Plan {
        props: vec![(Box::new(AttackSets), t.pick(600_000, 12_000_000))],
        rule: "positions from random legal play, the constructive builder and arbitrary placements (0-32 pieces of any \
               kind anywhere, pawns on back ranks, any number of kings) built with Board::from(&ArrayMap); a generated \
               list of 1-23 operations over a pool of state objects {colored_attacks(c), colored_pawn_attacks(c), \
               Board::is_check(c), State::is_check, clone an object into the pool, generate legal moves and adopt a \
               successor whose caches are already warm}; every answer must equal the oracle's (union of per-piece \
               geometric attack sets on the current occupancy minus own squares; king square in the opponent's set), \
               whatever the order and the clone timing. is_check is asserted only when that colour has exactly one king. \
               Non-trivial = distinct (position, op list) that queried both colours and cloned after at least one query.",
        assumptions: &["the mailbox rules oracle is correct (anchored to published perft counts at every run)"],
        self_test: super::oracle_self_test,
        post: None,
    }
}
