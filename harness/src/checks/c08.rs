//! C08 — the position hash depends on, and separates, everything rule-relevant.

use super::c01::starts;
use super::Plan;
use crate::gen::{self, BuildCase, PlayCase};
use crate::glue;
use crate::oracle::rules::{Col, Kind, Mv, Pos, KINDS};
use crate::runner::{pick_index, Ctx, Local, Prop};
use proptest::prelude::*;
use rand::SeedableRng;
use rand_chacha::ChaCha8Rng;
use serde::{Deserialize, Serialize};
use serde_json::json;
use weechess_core::{MoveGenerator, State, ZobristHasher};

#[derive(Debug, Clone, Serialize, Deserialize)]
pub enum Source {
    Play(PlayCase),
    Build(BuildCase),
}

fn source_strategy() -> impl Strategy<Value = Source> {
    prop_oneof![
        3 => gen::play_strategy(60).prop_map(Source::Play),
        2 => gen::build_strategy(14).prop_map(Source::Build),
    ]
}

fn source_pos(s: &Source) -> Option<Pos> {
    match s {
        Source::Play(c) => Some(gen::play(starts(), c).positions.pop().unwrap()),
        Source::Build(c) => gen::build(c),
    }
}

pub fn hasher(seed: u64) -> ZobristHasher {
    ZobristHasher::with(&mut ChaCha8Rng::seed_from_u64(seed))
}

fn h(hs: &ZobristHasher, p: &Pos) -> u64 {
    hs.hash(&glue::state_direct(p))
}

fn find<'a>(legal: &'a [(Mv, Pos)], m: &Mv) -> Option<&'a Pos> {
    // the "same" move in another position: same squares, piece and promotion
    legal
        .iter()
        .find(|(x, _)| x.from == m.from && x.to == m.to && x.kind == m.kind && x.promo == m.promo)
        .map(|x| &x.1)
}

// ------------------------------------------------------------------------- equal pairs

#[derive(Debug, Clone, Serialize, Deserialize)]
pub struct EqualCase {
    pub source: Source,
    pub hasher_seed: u64,
    pub picks: (u16, u16, u16),
    pub counters: (u16, u16),
}

pub struct EqualPairs;

impl Prop for EqualPairs {
    type Case = EqualCase;
    fn name(&self) -> &'static str {
        "hash_equal_pairs"
    }
    fn strategy(&self, _: &Ctx) -> BoxedStrategy<EqualCase> {
        (source_strategy(), any::<u64>(), any::<(u16, u16, u16)>(), any::<(u16, u16)>())
            .prop_map(|(source, hasher_seed, picks, counters)| EqualCase { source, hasher_seed, picks, counters })
            .boxed()
    }
    fn test(&self, _: &Ctx, case: &EqualCase, loc: &mut Local) -> Result<(), String> {
        let Some(p) = source_pos(&case.source) else {
            loc.class("rejected_build");
            return Ok(());
        };
        let hs = hasher(case.hasher_seed);
        // (1) different counters, same everything else
        let mut q = p.clone();
        q.half = case.counters.0 as u64;
        q.full = case.counters.1 as u64 + 1;
        loc.eval();
        if h(&hs, &p) != h(&hs, &q) {
            return Err(format!("'{}' and '{}' differ only in their counters but hash differently (hasher seed {})", p.fen(), q.fen(), case.hasher_seed));
        }
        if (q.half, q.full) != (p.half, p.full) {
            loc.class("counters_differ");
            loc.nontrivial(&(p.fen4(), q.half, q.full));
        }
        // (2) a state and its FEN re-parse
        let s1 = glue::state_direct(&p);
        if let Some(s2) = glue::state_from_fen(&glue::fen_of(&s1)) {
            loc.eval();
            if hs.hash(&s1) != hs.hash(&s2) {
                return Err(format!("'{}' and its FEN re-parse hash differently", p.fen()));
            }
            loc.class("fen_reparse");
        }
        // (2b) the position reached by weechess's own play versus the same position built directly:
        // "however they were reached" (a move-application path may leave different internal state)
        if let Source::Play(c) = &case.source {
            let played = gen::play(starts(), c);
            let mut w = glue::state_direct(&played.positions[0]);
            for (i, m) in played.moves.iter().enumerate() {
                let set = MoveGenerator::compute_legal_moves(&w);
                let Some(r) = set.moves().iter().find(|r| glue::read_move(&r.0) == *m) else {
                    return Err(format!("legal move {} not generated from '{}'", m.lan(), played.positions[i].fen()));
                };
                w = r.1.clone();
                loc.eval();
                let direct = glue::state_direct(&played.positions[i + 1]);
                if hs.hash(&w) != hs.hash(&direct) {
                    return Err(format!(
                        "'{}' reached by playing {} from '{}' hashes differently from the same position built directly (hasher seed {})",
                        played.positions[i + 1].fen(), played.moves[..=i].iter().map(|m| m.lan()).collect::<Vec<_>>().join(" "), played.positions[0].fen(), case.hasher_seed
                    ));
                }
                if m.castle.is_some() || m.ep || m.promo.is_some() {
                    loc.class("played_vs_built_after_special_move");
                    loc.nontrivial(&(played.positions[i + 1].fen4(), "played"));
                }
            }
        }
        // (3) two move orders a,b,c and c,b,a reaching the same 4-field position
        let legal = p.legal();
        if legal.len() >= 2 {
            let (a, pa) = &legal[pick_index(case.picks.0, legal.len())];
            let (c, _) = &legal[pick_index(case.picks.2, legal.len())];
            let lb = pa.legal();
            if a != c && !lb.is_empty() {
                let (b, pab) = &lb[pick_index(case.picks.1, lb.len())];
                let end1 = find(&pab.legal(), c).cloned();
                let end2 = find(&p.legal(), c)
                    .and_then(|pc| find(&pc.legal(), b).cloned())
                    .and_then(|pcb| find(&pcb.legal(), a).cloned());
                if let (Some(e1), Some(e2)) = (end1, end2) {
                    if e1.fen4() == e2.fen4() {
                        // reach both by weechess's own play, so that caches and history differ
                        let w1 = play_w(&p, &[*a, *b, *c])?;
                        let w2 = play_w(&p, &[*c, *b, *a])?;
                        loc.eval();
                        if hs.hash(&w1) != hs.hash(&w2) {
                            return Err(format!(
                                "from '{}' the orders {} {} {} and {} {} {} reach the same position '{}' but hash differently",
                                p.fen(), a.lan(), b.lan(), c.lan(), c.lan(), b.lan(), a.lan(), e1.fen4()
                            ));
                        }
                        loc.class("transposition");
                        loc.nontrivial(&(p.fen4(), *a, *b, *c));
                        loc.sample(|| json!({"from": p.fen(), "order1": [a.lan(), b.lan(), c.lan()], "order2": [c.lan(), b.lan(), a.lan()], "reach": e1.fen4()}));
                    } else {
                        loc.class("orders_reach_different_positions");
                    }
                } else {
                    loc.class("orders_not_both_legal");
                }
            }
        }
        Ok(())
    }
}

fn play_w(p: &Pos, moves: &[Mv]) -> Result<State, String> {
    let mut s = glue::state_direct(p);
    for m in moves {
        let set = MoveGenerator::compute_legal_moves(&s);
        let Some(r) = set.moves().iter().find(|r| {
            let x = glue::read_move(&r.0);
            x.from == m.from && x.to == m.to && x.promo == m.promo
        }) else {
            return Err(format!("legal move {} not generated from '{}'", m.lan(), glue::fen_of(&s)));
        };
        s = r.1.clone();
    }
    Ok(s)
}

// ----------------------------------------------------------------------- unequal pairs

#[derive(Debug, Clone, Copy, Serialize, Deserialize)]
pub enum Mutation {
    /// move the piece on the pick-th occupied square to the pick-th empty square
    MovePiece(u16, u16),
    /// add piece code (0..10: 5 kinds x 2 colours) on the pick-th empty square
    AddPiece(u8, u16),
    RemovePiece(u16),
    Recolour(u16),
    Rekind(u16, u8),
    FlipSide,
    /// replace the castling rights by another subset (bit mask) allowed by the placement
    Rights(u8),
    /// drop the en-passant target
    DropEp,
}

fn mutation_strategy() -> impl Strategy<Value = Mutation> {
    prop_oneof![
        2 => any::<(u16, u16)>().prop_map(|(a, b)| Mutation::MovePiece(a, b)),
        1 => (0u8..10, any::<u16>()).prop_map(|(a, b)| Mutation::AddPiece(a, b)),
        1 => any::<u16>().prop_map(Mutation::RemovePiece),
        1 => any::<u16>().prop_map(Mutation::Recolour),
        1 => (any::<u16>(), 0u8..5).prop_map(|(a, b)| Mutation::Rekind(a, b)),
        2 => Just(Mutation::FlipSide),
        4 => (0u8..16).prop_map(Mutation::Rights),
        3 => Just(Mutation::DropEp),
    ]
}

#[derive(Debug, Clone, Serialize, Deserialize)]
pub struct UnequalCase {
    pub source: Source,
    pub hasher_seed: u64,
    pub mutation: Mutation,
}

pub struct UnequalPairs;

/// Some(q, class, expectation) where expectation = false means the property leaves the pair free
fn mutate(p: &Pos, m: Mutation) -> Option<(Pos, &'static str, bool)> {
    let occupied: Vec<usize> = (0..64).filter(|s| p.b[*s].is_some()).collect();
    let nonking: Vec<usize> = occupied.iter().cloned().filter(|s| !matches!(p.b[*s], Some((_, Kind::K)))).collect();
    let empty: Vec<usize> = (0..64).filter(|s| p.b[*s].is_none()).collect();
    let mut q = p.clone();
    let class;
    let mut expect = true;
    match m {
        Mutation::MovePiece(a, b) => {
            if occupied.is_empty() || empty.is_empty() { return None; }
            let f = occupied[pick_index(a, occupied.len())];
            let t = empty[pick_index(b, empty.len())];
            q.b[t] = q.b[f];
            q.b[f] = None;
            class = "piece_moved";
        }
        Mutation::AddPiece(code, b) => {
            if empty.is_empty() { return None; }
            let t = empty[pick_index(b, empty.len())];
            q.b[t] = Some((if code < 5 { Col::W } else { Col::B }, KINDS[(code % 5) as usize]));
            class = "piece_added";
        }
        Mutation::RemovePiece(a) => {
            if nonking.is_empty() { return None; }
            q.b[nonking[pick_index(a, nonking.len())]] = None;
            class = "piece_removed";
        }
        Mutation::Recolour(a) => {
            if nonking.is_empty() { return None; }
            let s = nonking[pick_index(a, nonking.len())];
            let (c, k) = q.b[s].unwrap();
            q.b[s] = Some((c.opp(), k));
            class = "piece_recoloured";
        }
        Mutation::Rekind(a, k) => {
            if nonking.is_empty() { return None; }
            let s = nonking[pick_index(a, nonking.len())];
            let (c, old) = q.b[s].unwrap();
            let nk = KINDS[k as usize];
            if nk == old { return None; }
            q.b[s] = Some((c, nk));
            class = "piece_rekinded";
        }
        Mutation::FlipSide => {
            if p.ep.is_some() { return None; }
            q.stm = p.stm.opp();
            class = "side_flipped";
        }
        Mutation::Rights(mask) => {
            // constructive: only subsets the placement allows; never the current one
            let home = [(4usize, 7usize, Col::W), (4, 0, Col::W), (60, 63, Col::B), (60, 56, Col::B)];
            let allowed: Vec<usize> = (0..4)
                .filter(|i| p.b[home[*i].0] == Some((home[*i].2, Kind::K)) && p.b[home[*i].1] == Some((home[*i].2, Kind::R)))
                .collect();
            if allowed.is_empty() { return None; }
            for i in 0..4 { q.cas[i] = allowed.contains(&i) && mask & (1 << i) != 0; }
            if q.cas == p.cas {
                let i = allowed[(mask as usize) % allowed.len()];
                q.cas[i] = !q.cas[i];
            }
            class = "castling_rights";
        }
        Mutation::DropEp => {
            p.ep?;
            q.ep = None;
            if p.ep_capture_legal() {
                class = "ep_capture_available_vs_none";
            } else if p.ep_capture_pseudo() {
                class = "ep_pinned_vs_none_no_expectation";
                expect = false;
            } else {
                class = "ep_uncapturable_vs_none_no_expectation";
                expect = false;
            }
        }
    }
    if !q.is_legal_position() {
        return None;
    }
    Some((q, class, expect))
}

impl Prop for UnequalPairs {
    type Case = UnequalCase;
    fn name(&self) -> &'static str {
        "hash_unequal_pairs"
    }
    fn strategy(&self, _: &Ctx) -> BoxedStrategy<UnequalCase> {
        (source_strategy(), any::<u64>(), mutation_strategy())
            .prop_map(|(source, hasher_seed, mutation)| UnequalCase { source, hasher_seed, mutation })
            .boxed()
    }
    fn test(&self, _: &Ctx, case: &UnequalCase, loc: &mut Local) -> Result<(), String> {
        let mut source = case.source.clone();
        if let (Mutation::DropEp, Source::Build(b)) = (&case.mutation, &mut source) {
            if b.ep == 0 {
                // constructive: give the builder an en-passant wish derived from the case
                b.ep = 1 + ((b.wk as u16 * 7 + b.bk as u16) % 24) as u8;
                b.castle = 0;
            }
        }
        let Some(p) = source_pos(&source) else {
            loc.class("rejected_build");
            return Ok(());
        };
        let Some((q, class, expect)) = mutate(&p, case.mutation) else {
            loc.class("mutation_not_applicable");
            return Ok(());
        };
        let hs = hasher(case.hasher_seed);
        loc.eval();
        loc.class(class);
        if !expect {
            return Ok(());
        }
        if h(&hs, &p) == h(&hs, &q) {
            return Err(format!(
                "'{}' and '{}' differ ({}) but hash equal under hasher seed {}",
                p.fen4(), q.fen4(), class, case.hasher_seed
            ));
        }
        loc.nontrivial(&(p.fen4(), q.fen4()));
        loc.sample(|| json!({"a": p.fen4(), "b": q.fen4(), "class": class}));
        Ok(())
    }
}

// ------------------------------------------------------ whole families must hash injectively

/// Two men (any two of the twelve kinds) on every pair of squares, a fixed sprinkling of other men
/// around them: thousands of positions that pairwise differ in placement, so all hashes must be
/// distinct. One-component pairs cannot see keys that are aliased in a CROSSED pattern (the key of
/// man A on s equals the key of man B on s+1); a family does, whatever the pattern.
pub struct Families;

impl crate::runner::DynProp for Families {
    fn name(&self) -> &'static str {
        "hash_families_injective"
    }
    fn run(&self, ctx: &Ctx, cases: u64) {
        // 144 ordered pairs of kinds; `cases` families altogether, a different hasher seed and background each
        crate::runner::par_range(ctx, "hash_families_injective", cases, |i, loc| {
            let a = (i % 12) as usize;
            let b = ((i / 12) % 12) as usize;
            let piece = |c: usize| (if c < 6 { Col::W } else { Col::B }, KINDS[c % 6]);
            let mut x = crate::runner::h64(&(i, ctx.seed, "fam"));
            let hs = hasher(crate::runner::splitmix(&mut x));
            // background: up to four other men on fixed squares (kept clear of nothing: a collision is a collision)
            let mut base = Pos::empty(if crate::runner::splitmix(&mut x) % 2 == 0 { Col::W } else { Col::B });
            for _ in 0..(crate::runner::splitmix(&mut x) % 5) {
                let sq = (crate::runner::splitmix(&mut x) % 64) as usize;
                base.b[sq] = Some(piece((crate::runner::splitmix(&mut x) % 12) as usize));
            }
            let mut seen: std::collections::HashMap<u64, String> = std::collections::HashMap::with_capacity(4096);
            for s1 in 0..64usize {
                for s2 in 0..64usize {
                    if s1 == s2 || base.b[s1].is_some() || base.b[s2].is_some() {
                        continue;
                    }
                    if a == b && s1 > s2 {
                        continue; // the same position as (s2, s1)
                    }
                    let mut p = base.clone();
                    p.b[s1] = Some(piece(a));
                    p.b[s2] = Some(piece(b));
                    let hv = h(&hs, &p);
                    loc.eval();
                    let placement = p.fen4();
                    if let Some(other) = seen.insert(hv, placement.clone()) {
                        if other != placement {
                            return Err((json!({"index": i}), format!("'{}' and '{}' differ in placement but hash equal ({:#018x}) under one hasher", other, placement, hv)));
                        }
                    }
                }
            }
            loc.nontrivial(&(a, b, i));
            if i % 97 == 0 {
                loc.sample(|| json!({"family": format!("{:?} and {:?} on all square pairs", piece(a), piece(b)), "positions": seen.len()}));
            }
            Ok(())
        });
    }
    fn replay(&self, _: &Ctx, _: &serde_json::Value) -> Result<(), String> {
        Ok(())
    }
}

pub fn plan(ctx: &Ctx) -> Plan {
    let t = ctx.tier;
    Plan {
        props: vec![
            (Box::new(EqualPairs), t.pick(150_000, 4_000_000)),
            (Box::new(UnequalPairs), t.pick(1_500_000, 30_000_000)),
            (Box::new(Families), t.pick(432, 14_400)),
        ],
        rule: "hasher seeds are generated (ChaCha8, as the engine seeds its hashers). Equal pairs: the same position \
               with different counters; a state and its FEN re-parse; every position of a random game reached by \
               weechess's own successors versus the same position built directly; two move orders a,b,c / c,b,a from a generated \
               position that the oracle shows to reach the same 4-field position, each reached by weechess's own play. \
               Families: any two of the twelve kinds of men on all pairs of squares over a random background - all hashes of one family must be distinct. Unequal pairs differ from a generated legal position in exactly one component and are again legal: one \
               piece moved / added / removed / recoloured / re-kinded, side to move flipped, a different castling-right \
               subset, an en-passant capture legally available versus no target. Pairs that differ only in a \
               non-capturable or pinned en-passant target carry no expectation and are counted separately. \
               Non-trivial = distinct pairs; the class histogram must show every class.",
        assumptions: &[
            "a chance 64-bit collision (probability 2^-64 per pair) would be reported as a violation; with <= 4e7 pairs per run that is < 1e-11",
            "the mailbox rules oracle decides equality of positions and legal availability of en passant",
        ],
        self_test: super::oracle_self_test,
        post: None,
    }
}
