//! C09 — attack lookup tables equal board geometry (exhaustive over on-ray occupancies).

use super::Plan;
use crate::glue::{bb, o_col, o_kind, o_sq};
use crate::oracle::rules::{off, Col, Kind, BISHOP_D, KING_D, KNIGHT_D, ROOK_D};
use crate::runner::{par_range, splitmix, Ctx, DynProp};
use serde_json::{json, Value};
use weechess_core::{AttackGenerator, BitBoard, PieceIndex};

fn ray_squares(sq: usize, dirs: &[(i32, i32)]) -> Vec<usize> {
    let mut v = vec![];
    for d in dirs {
        let mut cur = sq;
        while let Some(t) = off(cur, *d) {
            v.push(t);
            cur = t;
        }
    }
    v
}

/// coordinate ray walk up to and including the first blocker
fn walk(sq: usize, occ: u64, dirs: &[(i32, i32)]) -> u64 {
    let mut m = 0u64;
    for d in dirs {
        let mut cur = sq;
        while let Some(t) = off(cur, *d) {
            m |= 1 << t;
            if occ & (1 << t) != 0 {
                break;
            }
            cur = t;
        }
    }
    m
}

fn steps(sq: usize, ds: &[(i32, i32)]) -> u64 {
    ds.iter().filter_map(|d| off(sq, *d)).fold(0, |m, t| m | (1 << t))
}

#[derive(Clone, Copy, PartialEq, Eq, Debug)]
enum Slider {
    Rook,
    Bishop,
    Queen,
}

fn lookup(s: Slider, sq: usize, occ: u64) -> u64 {
    let b = BitBoard::new(occ);
    bb(match s {
        Slider::Rook => AttackGenerator::compute_rook_attacks(o_sq(sq), b),
        Slider::Bishop => AttackGenerator::compute_bishop_attacks(o_sq(sq), b),
        Slider::Queen => AttackGenerator::compute_queen_attacks(o_sq(sq), b),
    })
}

fn dirs_of(s: Slider) -> Vec<(i32, i32)> {
    match s {
        Slider::Rook => ROOK_D.to_vec(),
        Slider::Bishop => BISHOP_D.to_vec(),
        Slider::Queen => KING_D.to_vec(),
    }
}

fn check_occ(s: Slider, sq: usize, occ: u64) -> Result<(), (Value, String)> {
    let got = lookup(s, sq, occ);
    let want = walk(sq, occ, &dirs_of(s));
    if got != want {
        return Err((
            json!({"piece": format!("{:?}", s), "square": sq, "occupancy": format!("{:#018x}", occ)}),
            format!(
                "{:?} on {} with occupancy {:#018x}: lookup {:#018x}, ray walk {:#018x}",
                s,
                crate::oracle::rules::sq_name(sq),
                occ,
                got,
                want
            ),
        ));
    }
    Ok(())
}

pub struct Sliders {
    pub noise: u64,
}

impl DynProp for Sliders {
    fn name(&self) -> &'static str {
        "slider_tables"
    }
    fn run(&self, ctx: &Ctx, _: u64) {
        let noise = self.noise;
        // work items: (piece, square); each enumerates all subsets of its ray squares
        par_range(ctx, "slider_tables", 128, |w, loc| {
            let s = if w < 64 { Slider::Rook } else { Slider::Bishop };
            let sq = (w % 64) as usize;
            let rays = ray_squares(sq, &dirs_of(s));
            let ray_mask: u64 = rays.iter().fold(0, |m, t| m | (1 << t));
            let mut rng = ctx.seed ^ (w + 1).wrapping_mul(0x9E3779B97F4A7C15);
            for subset in 0u64..(1 << rays.len()) {
                let mut occ = 0u64;
                for (i, t) in rays.iter().enumerate() {
                    if subset & (1 << i) != 0 {
                        occ |= 1 << t;
                    }
                }
                check_occ(s, sq, occ)?;
                loc.eval();
                // non-trivial: at least one blocker on at least two rays
                let blocked_rays = dirs_of(s)
                    .iter()
                    .filter(|d| {
                        let mut cur = sq;
                        let mut hit = false;
                        while let Some(t) = off(cur, **d) {
                            if occ & (1 << t) != 0 {
                                hit = true;
                                break;
                            }
                            cur = t;
                        }
                        hit
                    })
                    .count();
                if blocked_rays >= 2 {
                    loc.nontrivial(&(w, occ));
                }
                // the own-square bit and anything off the rays must not matter
                check_occ(s, sq, occ | (1 << sq))?;
                loc.eval();
                for _ in 0..noise {
                    let n = splitmix(&mut rng) & splitmix(&mut rng) & !ray_mask;
                    check_occ(s, sq, occ | n)?;
                    loc.eval();
                    loc.class("with_off_ray_noise");
                }
            }
            loc.sample(|| json!({"piece": format!("{:?}", s), "square": crate::oracle::rules::sq_name(sq), "ray_squares": rays.len(), "subsets": 1u64 << rays.len()}));
            Ok(())
        });
        ctx.mark_exhaustive("every subset of all squares on the rook rays (<= 2^14) and bishop rays (<= 2^13) of each of the 64 squares");
    }
    fn replay(&self, _: &Ctx, case: &Value) -> Result<(), String> {
        let s = match case["piece"].as_str().unwrap_or("") {
            "Rook" => Slider::Rook,
            "Bishop" => Slider::Bishop,
            _ => Slider::Queen,
        };
        let sq = case["square"].as_u64().ok_or("no square")? as usize;
        let occ = u64::from_str_radix(case["occupancy"].as_str().ok_or("no occupancy")?.trim_start_matches("0x"), 16)
            .map_err(|e| e.to_string())?;
        check_occ(s, sq, occ).map_err(|e| e.1)
    }
}

pub struct Queens {
    pub per_square: u64,
}

impl DynProp for Queens {
    fn name(&self) -> &'static str {
        "queen_tables"
    }
    fn run(&self, ctx: &Ctx, _: u64) {
        let per_square = self.per_square;
        par_range(ctx, "queen_tables", 64, |w, loc| {
            let sq = w as usize;
            let mut rng = ctx.seed ^ (w + 77).wrapping_mul(0xD1B54A32D192ED03);
            // all single-ray cases: every subset of each of the 8 rays alone
            for d in KING_D {
                let ray = ray_squares(sq, &[d]);
                for subset in 0u64..(1 << ray.len()) {
                    let mut occ = 0u64;
                    for (i, t) in ray.iter().enumerate() {
                        if subset & (1 << i) != 0 {
                            occ |= 1 << t;
                        }
                    }
                    check_occ(Slider::Queen, sq, occ)?;
                    loc.eval();
                }
            }
            // sampled occupancies of three densities over the whole board
            for k in 0..per_square {
                let a = splitmix(&mut rng);
                let b = splitmix(&mut rng);
                let c = splitmix(&mut rng);
                let occ = match k % 3 {
                    0 => a,
                    1 => a & b,
                    _ => a & b & c,
                };
                check_occ(Slider::Queen, sq, occ)?;
                check_occ(Slider::Rook, sq, occ)?;
                check_occ(Slider::Bishop, sq, occ)?;
                loc.evals_n(3);
                loc.nontrivial(&(sq, occ));
                // the generic dispatcher must agree with the specific lookups
                for (kind, s) in [(Kind::R, Slider::Rook), (Kind::B, Slider::Bishop), (Kind::Q, Slider::Queen)] {
                    for col in [Col::W, Col::B] {
                        let got = bb(AttackGenerator::compute(
                            PieceIndex::new(o_col(col), o_kind(kind)),
                            o_sq(sq),
                            BitBoard::new(occ),
                        ));
                        if got != walk(sq, occ, &dirs_of(s)) {
                            return Err((
                                json!({"piece": format!("{:?}", s), "square": sq, "occupancy": format!("{:#018x}", occ)}),
                                format!("AttackGenerator::compute for {:?} {:?} on {} differs from the ray walk", col, kind, sq),
                            ));
                        }
                    }
                }
            }
            Ok(())
        });
    }
    fn replay(&self, ctx: &Ctx, case: &Value) -> Result<(), String> {
        Sliders { noise: 0 }.replay(ctx, case)
    }
}

pub struct Steppers;

fn check_stepper(sq: usize) -> Result<(), (Value, String)> {
    let fail = |what: &str, got: u64, want: u64| {
        Err((
            json!({"square": sq, "what": what}),
            format!("{} attacks from {}: table {:#018x}, geometry {:#018x}", what, crate::oracle::rules::sq_name(sq), got, want),
        ))
    };
    let got = bb(AttackGenerator::compute_knight_attacks(o_sq(sq)));
    let want = steps(sq, &KNIGHT_D);
    if got != want {
        return fail("knight", got, want);
    }
    let got = bb(AttackGenerator::compute_king_attacks(o_sq(sq)));
    let want = steps(sq, &KING_D);
    if got != want {
        return fail("king", got, want);
    }
    for (col, dr, name) in [(Col::W, 1, "white pawn"), (Col::B, -1, "black pawn")] {
        let got = bb(AttackGenerator::compute_pawn_attacks(o_sq(sq), o_col(col)));
        let want = steps(sq, &[(-1, dr), (1, dr)]);
        if got != want {
            return fail(name, got, want);
        }
        // through the dispatcher, with arbitrary occupancy (must not matter)
        for occ in [0u64, !0u64, 0x55aa55aa55aa55aa] {
            for (kind, w) in [
                (Kind::P, want),
                (Kind::N, steps(sq, &KNIGHT_D)),
                (Kind::K, steps(sq, &KING_D)),
            ] {
                let g = bb(AttackGenerator::compute(
                    PieceIndex::new(o_col(col), o_kind(kind)),
                    o_sq(sq),
                    BitBoard::new(occ),
                ));
                if g != w {
                    return fail("dispatcher (stepper)", g, w);
                }
            }
        }
    }
    Ok(())
}

impl DynProp for Steppers {
    fn name(&self) -> &'static str {
        "stepper_tables"
    }
    fn run(&self, ctx: &Ctx, _: u64) {
        par_range(ctx, "stepper_tables", 64, |w, loc| {
            check_stepper(w as usize)?;
            loc.evals_n(4 + 18);
            // squares on an edge are the non-trivial ones (wrap-around)
            let (f, r) = (w % 8, w / 8);
            if f == 0 || f == 7 || r == 0 || r == 7 || f == 1 || f == 6 || r == 1 || r == 6 {
                loc.nontrivial(&("stepper", w));
            }
            Ok(())
        });
        ctx.mark_exhaustive("knight, king and pawn (both colours) attack sets on all 64 squares");
    }
    fn replay(&self, _: &Ctx, case: &Value) -> Result<(), String> {
        check_stepper(case["square"].as_u64().ok_or("no square")? as usize).map_err(|e| e.1)
    }
}

pub fn plan(ctx: &Ctx) -> Plan {
    let t = ctx.tier;
    Plan {
        props: vec![
            (Box::new(Steppers), 1),
            (Box::new(Sliders { noise: t.pick(2, 16) }), 1),
            (Box::new(Queens { per_square: t.pick(20_000, 400_000) }), 1),
        ],
        rule: "for each of the 64 squares every subset of ALL squares on the rook's rays (up to 2^14) and on the \
               bishop's rays (up to 2^13) - a superset of the relevance masks - is looked up and compared with a \
               coordinate ray walk up to and including the first blocker; each also with the own-square bit set and \
               with seeded off-ray noise occupancies, which must not matter; queen: every subset of each single ray \
               plus sampled whole-board occupancies of three densities (also through the generic dispatcher); knight, \
               king and both pawn colours on all 64 squares against fixed step patterns with explicit edge tests. \
               Non-trivial = distinct (square, occupancy) with a blocker on at least two rays; edge and near-edge \
               squares for the steppers.",
        assumptions: &["the off-ray noise and the sampled queen occupancies are drawn from a SplitMix64 stream of VERIF_SEED (the failing occupancy is stored in the replay file)"],
        self_test: super::no_self_test,
        post: None,
    }
}
