//! C03 — the search only ever reports legal moves and legal lines, whatever the history of
//! the search memory, the worker count and the interleaving.

use super::c01::starts;
use super::Plan;
use crate::gen::{self, BuildCase, PlayCase};
use crate::oracle::rules::{Col, Kind, Pos};
use crate::runner::{pick_index, Ctx, Local, Prop};
use crate::search::{self, Geometry, SearchOut, SearchSpec, GEOMETRIES};
use proptest::prelude::*;
use serde::{Deserialize, Serialize};
use serde_json::json;
use weechess_engine::searcher::verif;

pub const WORKERS: [u8; 6] = [1, 2, 3, 4, 8, 32];

/// Same-placement bases: positions that keep their meaning under every subset of their
/// castling rights, with and without their en-passant target.
pub const SAME_PLACEMENT_BASES: &[&str] = &[
    "4k3/p6p/Pp4pP/1Pp2pP1/2Pp1P2/3P4/8/4K2R w K - 0 1",
    "r3k2r/8/8/8/8/8/8/R3K2R w KQkq - 0 1",
    "r3k2r/pppppppp/8/8/8/8/PPPPPPPP/R3K2R w KQkq - 0 1",
    "4k3/8/8/2PpP3/8/8/8/4K3 w - d6 0 1",
    "r3k2r/8/8/2PpP3/8/8/8/R3K2R w KQkq d6 0 1",
    "4k2r/8/8/8/2pPp3/8/8/R3K3 b Qk d3 0 1",
    "r3k2r/p6p/8/8/8/8/P6P/R3K2R b KQkq - 0 1",
    "4k3/8/8/8/8/8/4P3/4K2R w K - 0 1",
    "r3k3/8/8/8/8/8/8/4K2R b Kq - 0 1",
    "4k3/8/8/8/1pP5/8/8/R3K3 b Q c3 0 1",
];

#[derive(Debug, Clone, Serialize, Deserialize)]
pub enum Source {
    Play(PlayCase),
    Build(BuildCase),
}

pub fn sparse_source() -> impl Strategy<Value = Source> {
    prop_oneof![
        1 => gen::play_strategy(40).prop_map(Source::Play),
        2 => gen::build_strategy(7).prop_map(Source::Build),
    ]
}

pub fn source_pos(s: &Source) -> Option<Pos> {
    match s {
        Source::Play(c) => Some(gen::play(starts(), c).positions.pop().unwrap()),
        Source::Build(c) => gen::build(c),
    }
}

#[derive(Debug, Clone, Serialize, Deserialize)]
pub enum Shape {
    /// index into SAME_PLACEMENT_BASES; each step picks a variant
    SamePlacement(u8),
    /// search, play the reported move, oracle-random reply, search again
    Game(Source),
    /// each step brings its own position
    Unrelated,
}

#[derive(Debug, Clone, Serialize, Deserialize)]
pub struct Step {
    pub depth: u8,
    pub seed: u64,
    pub workers: u8,
    pub sched: Option<u64>,
    pub cancel: Option<u32>,
    /// SamePlacement: (rights mask, keep ep); Game: reply pick
    pub variant: u16,
    pub own: Source,
}

#[derive(Debug, Clone, Serialize, Deserialize)]
pub struct History {
    pub hasher_seed: u64,
    pub geometry: u8,
    pub shape: Shape,
    pub steps: Vec<Step>,
}

pub fn cancel_strategy() -> impl Strategy<Value = Option<u32>> {
    prop_oneof![
        6 => Just(None),
        1 => Just(Some(0u32)),
        1 => Just(Some(1u32)),
        1 => (2u32..200).prop_map(Some),
        1 => prop_oneof![Just(9_999u32), Just(10_000), Just(10_001), Just(20_000)].prop_map(Some),
        1 => (200u32..60_000).prop_map(Some),
    ]
}

pub fn step_strategy(max_depth: u8) -> impl Strategy<Value = Step> {
    (
        1u8..=max_depth,
        any::<u64>(),
        prop_oneof![6 => Just(0u8), 2 => Just(1u8), 1 => Just(2u8), 2 => Just(3u8), 1 => Just(4u8), 1 => Just(5u8)],
        any::<u64>(),
        cancel_strategy(),
        any::<u16>(),
        sparse_source(),
    )
        .prop_map(|(depth, seed, w, sched, cancel, variant, own)| {
            let workers = WORKERS[w as usize];
            Step { depth, seed, workers, sched: if workers > 1 && sched % 8 != 0 { Some(sched) } else { None }, cancel, variant, own }
        })
}

pub fn history_strategy(max_depth: u8) -> impl Strategy<Value = History> {
    (
        any::<u64>(),
        0u8..(GEOMETRIES.len() as u8),
        prop_oneof![
            3 => (0u8..(SAME_PLACEMENT_BASES.len() as u8)).prop_map(Shape::SamePlacement),
            2 => sparse_source().prop_map(Shape::Game),
            2 => Just(Shape::Unrelated),
        ],
        prop::collection::vec(step_strategy(max_depth), 1..=6),
    )
        .prop_map(|(hasher_seed, geometry, shape, steps)| History { hasher_seed, geometry, shape, steps })
}

/// variant of a same-placement base: a subset of its rights, with or without its ep target
pub fn variant_of(base: &Pos, variant: u16) -> Pos {
    let mut p = base.clone();
    for i in 0..4 {
        p.cas[i] = base.cas[i] && (variant >> i) & 1 == 1;
    }
    if (variant >> 4) & 1 == 1 {
        p.ep = None;
    }
    p
}

/// depth caps that keep busy positions and many workers affordable
pub fn capped_depth(p: &Pos, depth: u8, workers: u8) -> u8 {
    let men = p.men();
    let mut d = depth;
    if men > 20 {
        d = d.min(2);
    } else if men > 10 {
        d = d.min(3);
    }
    if workers >= 32 {
        d = d.min(3);
    }
    if workers >= 8 {
        d = d.min(4);
    }
    d.max(1)
}

pub fn usage(a: &weechess_engine::searcher::SearchArtifact) -> f64 {
    let (e, m) = verif::table_usage(a);
    e as f64 / m.max(1) as f64
}

/// The oracle of C03 for one finished search. `saturated` disables the "at least one
/// report" expectation (see DESIGN.md: tiny tables can lose the root entry legitimately).
pub fn judge(root: &Pos, spec: &SearchSpec, out: &SearchOut, saturated: bool) -> Result<(), String> {
    let ctx = || format!("search of '{}' ({:?})", root.fen(), spec);
    if let Some(p) = &out.panic {
        return Err(format!("{} panicked: {}", ctx(), p));
    }
    for b in out.best.iter() {
        search::check_line(root, &b.line).map_err(|e| format!("{}: {}", ctx(), e))?;
    }
    // the first iteration always runs to completion (a Stop only takes effect after its report),
    // so a root with a legal move always gets at least one report
    if out.best.is_empty() && !saturated {
        return Err(format!("{} ended without reporting any best line", ctx()));
    }
    Ok(())
}

pub struct Histories {
    pub max_depth: u8,
}

impl Prop for Histories {
    type Case = History;
    fn name(&self) -> &'static str {
        "search_histories"
    }
    fn max_shrink_iters(&self) -> u32 {
        400
    }
    fn max_shrink_time_ms(&self) -> u32 {
        90_000
    }
    fn strategy(&self, _: &Ctx) -> BoxedStrategy<History> {
        history_strategy(self.max_depth).boxed()
    }
    fn test(&self, _: &Ctx, case: &History, loc: &mut Local) -> Result<(), String> {
        let geometry: Geometry = GEOMETRIES[case.geometry as usize % GEOMETRIES.len()];
        let mut artifact = Some(search::new_artifact(case.hasher_seed, geometry));
        let mut game_pos: Option<Pos> = match &case.shape {
            Shape::Game(s) => source_pos(s),
            _ => None,
        };
        let mut seen: Vec<Pos> = vec![];
        let mut nontrivial_a = false;
        let mut nontrivial_b = false;
        let mut nontrivial_c = false;
        for step in case.steps.iter() {
            let pos = match &case.shape {
                Shape::SamePlacement(i) => {
                    let base = Pos::from_fen(SAME_PLACEMENT_BASES[*i as usize % SAME_PLACEMENT_BASES.len()]).unwrap();
                    variant_of(&base, step.variant)
                }
                Shape::Game(_) => match &game_pos {
                    Some(p) => p.clone(),
                    None => return Ok(()),
                },
                Shape::Unrelated => match source_pos(&step.own) {
                    Some(p) => p,
                    None => continue,
                },
            };
            if !pos.has_legal_move() {
                // terminal roots belong to C04
                if matches!(case.shape, Shape::Game(_)) {
                    break;
                }
                continue;
            }
            let spec = SearchSpec {
                depth: Some(capped_depth(&pos, step.depth, step.workers)),
                seed: step.seed,
                workers: step.workers,
                sched_seed: step.sched,
                cancel_after: step.cancel,
            };
            let Some(a) = artifact.take() else { break };
            let (out, back) = search::run(&pos, &spec, a, usize::MAX);
            loc.eval();
            let saturated = match &back {
                Some(a) => usage(a) > 0.25,
                None => true,
            };
            judge(&pos, &spec, &out, saturated)?;
            artifact = back;
            // accounting
            if seen.iter().any(|q| q.b == pos.b && q.stm == pos.stm && (q.cas != pos.cas || q.ep != pos.ep)) {
                nontrivial_a = true;
                loc.class("reuse_same_placement_other_rights");
            }
            if let Some((_, switches, _)) = out.sched {
                loc.class("scheduled");
                if switches >= 10 {
                    nontrivial_b = true;
                }
            }
            if out.cancelled && !out.best.is_empty() && out.nodes_after_cancel > 0 {
                nontrivial_c = true;
                loc.class("cancelled_and_reported");
            }
            if saturated {
                loc.class("saturated_table");
            }
            loc.class(match spec.workers { 1 => "workers_1", 2..=4 => "workers_2_4", 8 => "workers_8", _ => "workers_32" });
            seen.push(pos.clone());
            // continue the game: play the reported move, then an oracle-random reply
            if matches!(case.shape, Shape::Game(_)) {
                let Some(best) = out.best.last() else { break };
                let legal = pos.legal();
                let Some((_, after)) = legal.iter().find(|(m, _)| *m == best.line[0]) else { break };
                let replies = after.legal();
                if replies.is_empty() {
                    break;
                }
                game_pos = Some(gen::choose(after, &replies, step.variant).1.clone());
            }
        }
        if nontrivial_a || nontrivial_b || nontrivial_c {
            loc.nontrivial(&format!("{:?}", case));
        }
        loc.class(match case.shape { Shape::SamePlacement(_) => "shape_same_placement", Shape::Game(_) => "shape_game", Shape::Unrelated => "shape_unrelated" });
        loc.sample(|| json!({"geometry": format!("{}x{}", geometry.tables, geometry.buckets), "shape": format!("{:?}", case.shape).chars().take(80).collect::<String>(),
            "searched": seen.iter().map(|p| p.fen()).collect::<Vec<_>>()}));
        Ok(())
    }
}


// ------------------------------------------- public entry point, default worker policy

/// The public `Searcher::analyze` decides the worker count itself (one below iteration depth
/// 3, then up to 32 on rayon's global pool, really parallel). The hook path never takes that
/// branch, so a few searches per run go through it: depth 4-5, default 1 GiB memory or a
/// small one handed in, every reported line checked for legality.
#[derive(Debug, Clone, Serialize, Deserialize)]
pub struct PublicCase {
    pub source: Source,
    pub depth: u8,
    pub seed: u64,
    pub fresh_memory: bool,
    pub hasher_seed: u64,
}

pub struct PublicMultiWorker;

impl Prop for PublicMultiWorker {
    type Case = PublicCase;
    fn name(&self) -> &'static str {
        "public_entry_multiworker"
    }
    fn parallelism(&self, _: &Ctx) -> usize {
        3
    }
    fn max_shrink_iters(&self) -> u32 {
        20
    }
    fn strategy(&self, _: &Ctx) -> BoxedStrategy<PublicCase> {
        (sparse_source(), 4u8..=5, any::<u64>(), proptest::bool::weighted(0.25), any::<u64>())
            .prop_map(|(source, depth, seed, fresh_memory, hasher_seed)| PublicCase { source, depth, seed, fresh_memory, hasher_seed })
            .boxed()
    }
    fn test(&self, _: &Ctx, case: &PublicCase, loc: &mut Local) -> Result<(), String> {
        use weechess_engine::searcher::{Searcher, StatusEvent};
        let Some(pos) = source_pos(&case.source) else { return Ok(()) };
        if !pos.has_legal_move() || pos.men() > 12 {
            return Ok(());
        }
        let artifact = if case.fresh_memory { None } else { Some(search::new_artifact(case.hasher_seed, Geometry { tables: 8, buckets: 1024 })) };
        let state = crate::glue::state_direct(&pos);
        let (handle, tx, rx) = Searcher::new().analyze(state, case.seed, weechess_engine::eval::Evaluator::default(), Some(case.depth as usize), artifact);
        let what = format!("Searcher::analyze('{}', depth {}, seed {})", pos.fen(), case.depth, case.seed);
        let mut lines = 0;
        loop {
            match rx.recv_timeout(std::time::Duration::from_secs(300)) {
                Ok(StatusEvent::BestMove { line, .. }) => {
                    let l: Vec<crate::oracle::rules::Mv> = line.iter().map(crate::glue::read_move).collect();
                    search::check_line(&pos, &l).map_err(|e| format!("{}: {}", what, e))?;
                    lines += 1;
                }
                Ok(_) => {}
                Err(std::sync::mpsc::RecvTimeoutError::Disconnected) => break,
                Err(std::sync::mpsc::RecvTimeoutError::Timeout) => return Err(format!("{} sent no event for 300 s", what)),
            }
        }
        drop(tx);
        if handle.join().is_err() {
            return Err(format!("{} panicked", what));
        }
        if lines == 0 {
            return Err(format!("{} ended without reporting any best line", what));
        }
        loc.eval();
        loc.nontrivial(&(pos.fen4(), case.depth, case.seed, "public"));
        loc.class(if case.fresh_memory { "fresh_1GiB_memory" } else { "small_memory_handed_in" });
        loc.sample(|| json!({"fen": pos.fen(), "depth": case.depth, "seed": case.seed, "reported_lines": lines}));
        Ok(())
    }
}

pub fn plan(ctx: &Ctx) -> Plan {
    let t = ctx.tier;
    let _ = (Col::W, Kind::K, pick_index(0, 1));
    Plan {
        props: vec![
            (Box::new(Histories { max_depth: 5 }), t.pick(5_000, 200_000)),
            (Box::new(PublicMultiWorker), t.pick(80, 3_000)),
        ],
        rule: "a case is a history of 1-6 searches sharing one search memory of generated geometry (8x1024 down to 1x1 \
               buckets): (i) the same placement under different castling-right subsets / with and without its \
               en-passant target, (ii) a game (search, play the reported move, oracle-random reply, search again), (iii) \
               unrelated sparse positions; each search has a depth limit 1-5, a seed, 1/2/3/4/8/32 workers (>1: seven in eight \
               under the seeded baton scheduler at the shared-table accesses, one in eight really parallel and \
               therefore not replayable) and optionally a node-clock Stop at N in \
               {0,1,small,9999,10000,10001,20000,large}. Oracle: no panic (the repository's own debug assertions are \
               live), every move of every reported line legal in the position reached so far (attribute-tuple equality \
               with the rules oracle), and at least one report (also when the Stop precedes the first node) unless the table is more \
               than 25% full. A second part sends depth 4-5 searches through the public Searcher::analyze, \
               whose own worker policy (up to 32 really parallel workers from the fourth iteration) the hook path \
               never takes; same legality oracle. Non-trivial = distinct histories that reuse the memory across equal \
               placements with different rights/ep, or ran >= 2 workers with >= 10 baton switches, or were cancelled \
               mid-search and still reported.",
        assumptions: &[
            "interleavings are sampled by schedule seed at the granularity of one shared-table operation (all cross-worker communication is table find/insert under a lock plus one AtomicBool)",
            "illegal output that needs a chance 64-bit hash collision is out of reach",
            "the mailbox rules oracle is correct (anchored to published perft counts)",
        ],
        self_test: super::oracle_self_test,
        post: None,
    }
}
