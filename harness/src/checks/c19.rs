//! C19 — a search is reproducible from its seed.

use super::c03::{capped_depth, source_pos, sparse_source, Source};
use super::Plan;
use crate::glue;
use crate::oracle::rules::Pos;
use crate::procdrv;
use crate::runner::{Ctx, Local, Prop};
use crate::search::{self, Geometry, SearchSpec};
use proptest::prelude::*;
use serde::{Deserialize, Serialize};
use serde_json::json;
use std::time::Duration;
use weechess_engine::eval::Evaluator;
use weechess_engine::searcher::{Searcher, StatusEvent};

#[derive(Debug, Clone, Serialize, Deserialize)]
pub struct Case {
    pub source: Source,
    pub seed: u64,
    pub depth: u8,
    /// an unrelated search run between the two (position, seed)
    pub between: Option<(Source, u64)>,
    pub cross_process: bool,
}

const GEOM: Geometry = Geometry { tables: 8, buckets: 1024 };

/// Seeds: mostly arbitrary, but the values an implementation is tempted to treat specially come up
/// in every run (0 as "no seed given", small numbers, single bits, the maximum).
pub fn seed_strategy() -> impl Strategy<Value = u64> {
    prop_oneof![
        6 => any::<u64>(),
        2 => Just(0u64),
        1 => Just(1u64),
        1 => Just(u64::MAX),
        1 => 0u64..16,
        1 => (0u32..64).prop_map(|k| 1u64 << k),
        1 => any::<u32>().prop_map(|x| x as u64),
    ]
}

/// The complete event sequence of a single-worker search on a fresh small memory.
/// The hasher of the fresh memory is derived from the seed, like the engine does.
pub fn transcript_sync(pos: &Pos, seed: u64, depth: u8) -> Result<Vec<String>, String> {
    let spec = SearchSpec { depth: Some(depth), seed, workers: 1, sched_seed: None, cancel_after: None };
    let (out, _) = search::run(pos, &spec, search::new_artifact(seed ^ 0x5eed, GEOM), usize::MAX);
    if let Some(p) = out.panic {
        return Err(format!("search of '{}' panicked: {}", pos.fen(), p));
    }
    Ok(out.transcript)
}

fn distinct_first_moves(t: &[String]) -> usize {
    let mut v: Vec<&str> = t
        .iter()
        .filter(|l| l.starts_with("best "))
        .filter_map(|l| l.split(' ').nth(2))
        .collect();
    v.sort();
    v.dedup();
    v.len()
}

pub struct SameSeedSync;

impl Prop for SameSeedSync {
    type Case = Case;
    fn name(&self) -> &'static str {
        "same_seed_single_worker"
    }
    fn max_shrink_iters(&self) -> u32 {
        200
    }
    fn strategy(&self, _: &Ctx) -> BoxedStrategy<Case> {
        (
            sparse_source(),
            seed_strategy(),
            1u8..=6,
            proptest::option::weighted(0.5, (sparse_source(), any::<u64>())),
            proptest::bool::weighted(0.03),
        )
            .prop_map(|(source, seed, depth, between, cross_process)| Case { source, seed, depth, between, cross_process })
            .boxed()
    }
    fn test(&self, _: &Ctx, case: &Case, loc: &mut Local) -> Result<(), String> {
        let Some(pos) = source_pos(&case.source) else { return Ok(()) };
        if !pos.has_legal_move() {
            return Ok(());
        }
        let depth = capped_depth(&pos, case.depth, 1);
        let a = transcript_sync(&pos, case.seed, depth)?;
        if let Some((s, seed)) = &case.between {
            if let Some(p2) = source_pos(s) {
                if p2.has_legal_move() {
                    let _ = transcript_sync(&p2, *seed, 2)?;
                    loc.class("unrelated_search_between");
                }
            }
        }
        let b = if case.cross_process {
            loc.class("second_run_in_another_process");
            let exe = std::env::current_exe().map_err(|e| e.to_string())?;
            let arg = json!({"fen": pos.fen(), "seed": case.seed, "depth": depth}).to_string();
            let out = std::process::Command::new(exe)
                .args(["C19", "--transcript", &arg])
                .output()
                .unwrap_or_else(|e| crate::runner::harness_fail(&format!("cannot spawn second process: {}", e)));
            if !out.status.success() {
                return Err(format!("second process failed for '{}': {}", pos.fen(), String::from_utf8_lossy(&out.stderr)));
            }
            String::from_utf8_lossy(&out.stdout).lines().map(|l| l.to_string()).collect()
        } else {
            transcript_sync(&pos, case.seed, depth)?
        };
        loc.eval();
        if a != b {
            let i = a.iter().zip(b.iter()).position(|(x, y)| x != y).unwrap_or(a.len().min(b.len()));
            return Err(format!(
                "two single-worker searches of '{}' with seed {} and depth {} differ at event {}: '{}' vs '{}' ({} vs {} events)",
                pos.fen(), case.seed, depth, i,
                a.get(i).cloned().unwrap_or_default(), b.get(i).cloned().unwrap_or_default(), a.len(), b.len()
            ));
        }
        if distinct_first_moves(&a) >= 2 {
            loc.nontrivial(&(pos.fen4(), case.seed, depth));
            loc.class("best_first_move_changed_across_iterations");
        }
        loc.sample(|| json!({"fen": pos.fen(), "seed": case.seed, "depth": depth, "events": a.len(), "last": a.last()}));
        Ok(())
    }
}

/// used by `vcheck C19 --transcript <json>` (the second process of a cross-process pair)
pub fn print_transcript(arg: &str) -> i32 {
    let v: serde_json::Value = match serde_json::from_str(arg) {
        Ok(v) => v,
        Err(_) => return 2,
    };
    let Some(pos) = v["fen"].as_str().and_then(Pos::from_fen) else { return 2 };
    let seed = v["seed"].as_u64().unwrap_or(0);
    let depth = v["depth"].as_u64().unwrap_or(1) as u8;
    let t = if v["public"].as_bool().unwrap_or(false) {
        transcript_public(&pos, seed, depth as usize)
    } else {
        transcript_sync(&pos, seed, depth)
    };
    match t {
        Ok(t) => {
            for l in t {
                println!("{}", l);
            }
            0
        }
        Err(e) => {
            eprintln!("{}", e);
            1
        }
    }
}

// ------------------------------------------------------------------ public entry point

#[derive(Debug, Clone, Serialize, Deserialize)]
pub struct PublicCase {
    pub source: Source,
    pub seed: u64,
    pub depth: u8,
}

pub fn transcript_public(pos: &Pos, seed: u64, depth: usize) -> Result<Vec<String>, String> {
    let state = glue::state_direct(pos);
    let (handle, tx, rx) = Searcher::new().analyze(state, seed, Evaluator::default(), Some(depth), None);
    let mut t = vec![];
    // the channel closes when the search is over
    loop {
        match rx.recv_timeout(Duration::from_secs(120)) {
            Ok(StatusEvent::BestMove { line, evaluation }) => t.push(format!(
                "best {} {}",
                i32::from(evaluation),
                line.iter().map(|m| glue::read_move(m).lan()).collect::<Vec<_>>().join(" ")
            )),
            Ok(StatusEvent::Progress { depth, nodes_searched, transposition_saturation }) => {
                t.push(format!("progress {} {} {:e}", depth, nodes_searched, transposition_saturation))
            }
            Ok(StatusEvent::Warning { .. }) => t.push("warning".into()),
            Err(std::sync::mpsc::RecvTimeoutError::Disconnected) => break,
            Err(std::sync::mpsc::RecvTimeoutError::Timeout) => return Err(format!("public search of '{}' produced nothing for 120 s", pos.fen())),
        }
    }
    drop(tx);
    handle.join().map_err(|_| format!("public search of '{}' panicked", pos.fen()))?;
    Ok(t)
}

pub struct SameSeedPublic;

impl Prop for SameSeedPublic {
    type Case = PublicCase;
    fn name(&self) -> &'static str {
        "same_seed_public_entry"
    }
    fn parallelism(&self, _: &Ctx) -> usize {
        4
    }
    fn max_shrink_iters(&self) -> u32 {
        30
    }
    fn strategy(&self, _: &Ctx) -> BoxedStrategy<PublicCase> {
        (sparse_source(), seed_strategy(), 1u8..=3)
            .prop_map(|(source, seed, depth)| PublicCase { source, seed, depth })
            .boxed()
    }
    fn test(&self, _: &Ctx, case: &PublicCase, loc: &mut Local) -> Result<(), String> {
        let Some(pos) = source_pos(&case.source) else { return Ok(()) };
        if !pos.has_legal_move() {
            return Ok(());
        }
        let a = transcript_public(&pos, case.seed, case.depth as usize)?;
        let b = transcript_public(&pos, case.seed, case.depth as usize)?;
        loc.eval();
        if a != b {
            return Err(format!(
                "two Searcher::analyze runs of '{}' with seed {} and depth {} (fresh memory) differ: {:?} vs {:?}",
                pos.fen(), case.seed, case.depth, a, b
            ));
        }
        // every third pair is also compared with a freshly started process (catches state that
        // survives inside one process: statics, thread-locals, lazily initialised tables)
        if case.seed % 3 == 0 {
            let exe = std::env::current_exe().map_err(|e| e.to_string())?;
            let arg = json!({"fen": pos.fen(), "seed": case.seed, "depth": case.depth, "public": true}).to_string();
            let out = std::process::Command::new(exe)
                .args(["C19", "--transcript", &arg])
                .output()
                .unwrap_or_else(|e| crate::runner::harness_fail(&format!("cannot spawn second process: {}", e)));
            if !out.status.success() {
                return Err(format!("second process failed for '{}': {}", pos.fen(), String::from_utf8_lossy(&out.stderr)));
            }
            let c: Vec<String> = String::from_utf8_lossy(&out.stdout).lines().map(|l| l.to_string()).collect();
            loc.class("compared_with_fresh_process");
            if a != c {
                return Err(format!(
                    "Searcher::analyze of '{}' with seed {} and depth {} (fresh memory) gives {:?} in this process but {:?} in a freshly started process",
                    pos.fen(), case.seed, case.depth, a, c
                ));
            }
        }
        loc.nontrivial(&(pos.fen4(), case.seed, case.depth, "public"));
        if distinct_first_moves(&a) >= 2 {
            loc.class("best_first_move_changed_across_iterations");
        }
        loc.sample(|| json!({"fen": pos.fen(), "seed": case.seed, "depth": case.depth, "events": a}));
        Ok(())
    }
}

// --------------------------------------------------------------------------------- CLI

pub struct SameSeedCli;

fn cli_transcript(fen: &str, depth: u8, seed: u64) -> Result<Vec<String>, String> {
    let out = procdrv::run_cli(
        &["evaluate", "--fen", fen, "--max-depth", &depth.to_string(), "--seed", &seed.to_string()],
        Duration::from_secs(180),
    )?;
    if out.timed_out || out.code != Some(0) {
        return Err(format!("weechess evaluate --fen '{}' --max-depth {} --seed {} ended with {:?} (timed out: {})", fen, depth, seed, out.code, out.timed_out));
    }
    let mut t = vec![];
    for l in out.stdout.lines() {
        if l.contains("Best Move") {
            t.push(l.to_string());
        } else if let Some(i) = l.find("nodes=") {
            // time= and nps= vary; depth= and nodes= must not
            let nodes: String = l[i..].split(' ').next().unwrap_or("").to_string();
            let depth: String = l.find("depth=").map(|j| l[j..].split(' ').next().unwrap_or("").to_string()).unwrap_or_default();
            t.push(format!("{} {}", depth, nodes));
        }
    }
    Ok(t)
}

impl Prop for SameSeedCli {
    type Case = PublicCase;
    fn name(&self) -> &'static str {
        "same_seed_cli"
    }
    fn parallelism(&self, _: &Ctx) -> usize {
        4
    }
    fn max_shrink_iters(&self) -> u32 {
        20
    }
    fn strategy(&self, _: &Ctx) -> BoxedStrategy<PublicCase> {
        (sparse_source(), seed_strategy(), 1u8..=3)
            .prop_map(|(source, seed, depth)| PublicCase { source, seed, depth })
            .boxed()
    }
    fn test(&self, _: &Ctx, case: &PublicCase, loc: &mut Local) -> Result<(), String> {
        let Some(pos) = source_pos(&case.source) else { return Ok(()) };
        if !pos.has_legal_move() {
            return Ok(());
        }
        let fen = pos.fen();
        let a = cli_transcript(&fen, case.depth, case.seed)?;
        let b = cli_transcript(&fen, case.depth, case.seed)?;
        loc.eval();
        if a.is_empty() {
            return Err(format!("weechess evaluate --fen '{}' --max-depth {} --seed {} printed no best move", fen, case.depth, case.seed));
        }
        if a != b {
            return Err(format!("two runs of weechess evaluate --fen '{}' --max-depth {} --seed {} differ: {:?} vs {:?}", fen, case.depth, case.seed, a, b));
        }
        loc.nontrivial(&(pos.fen4(), case.seed, case.depth, "cli"));
        loc.sample(|| json!({"cmd": format!("weechess evaluate --fen '{}' --max-depth {} --seed {}", fen, case.depth, case.seed), "lines": a}));
        Ok(())
    }
}

pub fn plan(ctx: &Ctx) -> Plan {
    let t = ctx.tier;
    Plan {
        props: vec![
            (Box::new(SameSeedSync), t.pick(12_000, 300_000)),
            (Box::new(SameSeedPublic), t.pick(40, 1_500)),
            (Box::new(SameSeedCli), t.pick(24, 600)),
        ],
        rule: "sparse generated positions with a legal move, generated seeds. (a) explicit single worker through the cfg \
               hook, depth 1-6, fresh 8x1024 memory whose hasher is derived from the seed: the complete event sequence \
               (best lines, evaluations, depth, node counts, saturation) of two runs must be identical - back to back, \
               with an unrelated search in between, and (3% of cases) with the second run in a freshly spawned process; \
               (b) the public Searcher::analyze with a fresh default (1 GiB) memory, depth 1-3 (one worker below \
               iteration depth 3): two runs identical, and every third pair also identical to a run in a freshly started process; (c) the CLI: weechess evaluate --fen F --max-depth d --seed s run \
               twice, best-move lines and depth=/nodes= fields identical (time/nps ignored). Non-trivial = distinct \
               (position, seed, depth) whose event sequence shows at least two different best first moves across \
               iterations (the jitter mattered), and every public / CLI pair.",
        assumptions: &["'fresh search memory' for the hook path means a new small artifact whose hasher seed is a fixed function of the search seed"],
        self_test: super::oracle_self_test,
        post: None,
    }
}
