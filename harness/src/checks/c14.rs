//! C14 — malformed text never crashes the parsers or the UCI loop.

use super::Plan;
use crate::gen::{self, BuildCase};
use crate::oracle::san;
use crate::procdrv::{Line, Uci};
use crate::runner::{pick_index, Ctx, DynProp, Local, Prop};
use proptest::prelude::*;
use serde::{Deserialize, Serialize};
use serde_json::{json, Value};
use std::time::Duration;
use weechess_core::{
    notation::{try_from_notation, Fen, San},
    MoveQuery, State,
};

const ODD_CHARS: [&str; 16] = [
    "é", "♔", "\u{0}", "\u{a0}", "\t", "٣", "１", " ", "/", "-", "𝟠", "\u{200b}", "\r", "K", "8", "9",
];

#[derive(Debug, Clone, Copy, Serialize, Deserialize)]
pub enum Mut {
    Delete(u16),
    Duplicate(u16),
    Insert(u16, u8),
    /// swap two space-separated fields
    SwapFields(u8, u8),
    DropField(u8),
    DupField(u8),
    /// a run of `len` copies of a digit inserted at a position
    DigitFlood(u16, u8, u8),
    /// repeat the text of one rank n times (over-long rank)
    LongRank(u8, u8),
    DropRank(u8),
    AddRank(u8),
    /// replace a counter field by an extreme / odd number
    Counter(u8, u8),
    Truncate(u16),
}

pub fn mut_strategy() -> impl Strategy<Value = Mut> {
    prop_oneof![
        2 => any::<u16>().prop_map(Mut::Delete),
        2 => any::<u16>().prop_map(Mut::Duplicate),
        3 => (any::<u16>(), 0u8..16).prop_map(|(a, b)| Mut::Insert(a, b)),
        1 => (0u8..6, 0u8..6).prop_map(|(a, b)| Mut::SwapFields(a, b)),
        1 => (0u8..6).prop_map(Mut::DropField),
        1 => (0u8..6).prop_map(Mut::DupField),
        4 => (any::<u16>(), 0u8..10, 8u8..=64).prop_map(|(a, b, c)| Mut::DigitFlood(a, b, c)),
        2 => (0u8..8, 2u8..40).prop_map(|(a, b)| Mut::LongRank(a, b)),
        1 => (0u8..8).prop_map(Mut::DropRank),
        1 => (0u8..8).prop_map(Mut::AddRank),
        2 => (0u8..2, 0u8..12).prop_map(|(a, b)| Mut::Counter(a, b)),
        1 => any::<u16>().prop_map(Mut::Truncate),
    ]
}

const NUMBERS: [&str; 12] = [
    "18446744073709551615", "18446744073709551616", "99999999999999999999999999", "-1", "٣", "１２", "+5", "0x10", "", "1e5",
    "4294967296", "000000000000000000000000000000000000000007",
];

pub fn apply_mut(s: &str, m: Mut) -> String {
    let chars: Vec<char> = s.chars().collect();
    let at = |p: u16| if chars.is_empty() { 0 } else { pick_index(p, chars.len() + 1) };
    match m {
        Mut::Delete(p) => {
            if chars.is_empty() {
                return String::new();
            }
            let i = pick_index(p, chars.len());
            chars.iter().enumerate().filter(|(j, _)| *j != i).map(|x| *x.1).collect()
        }
        Mut::Duplicate(p) => {
            if chars.is_empty() {
                return String::new();
            }
            let i = pick_index(p, chars.len());
            let mut v = chars.clone();
            v.insert(i, chars[i]);
            v.into_iter().collect()
        }
        Mut::Insert(p, c) => {
            let i = at(p);
            let mut out: String = chars[..i].iter().collect();
            out.push_str(ODD_CHARS[c as usize % ODD_CHARS.len()]);
            out.extend(chars[i..].iter());
            out
        }
        Mut::SwapFields(a, b) => {
            let mut f: Vec<&str> = s.split(' ').collect();
            if f.len() < 2 {
                return s.to_string();
            }
            let (a, b) = (a as usize % f.len(), b as usize % f.len());
            f.swap(a, b);
            f.join(" ")
        }
        Mut::DropField(a) => {
            let mut f: Vec<&str> = s.split(' ').collect();
            if f.is_empty() {
                return String::new();
            }
            f.remove(a as usize % f.len());
            f.join(" ")
        }
        Mut::DupField(a) => {
            let mut f: Vec<&str> = s.split(' ').collect();
            let i = a as usize % f.len();
            f.insert(i, f[i]);
            f.join(" ")
        }
        Mut::DigitFlood(p, d, len) => {
            // inside the placement field when there is one
            let placement_len = s.split(' ').next().map(|x| x.chars().count()).unwrap_or(0);
            let i = if placement_len > 0 { pick_index(p, placement_len + 1) } else { at(p) };
            let mut out: String = chars[..i.min(chars.len())].iter().collect();
            for _ in 0..len {
                out.push((b'0' + d % 10) as char);
            }
            out.extend(chars[i.min(chars.len())..].iter());
            out
        }
        Mut::LongRank(r, n) => {
            let mut f: Vec<String> = s.split(' ').map(|x| x.to_string()).collect();
            let mut ranks: Vec<String> = f[0].split('/').map(|x| x.to_string()).collect();
            let i = r as usize % ranks.len();
            ranks[i] = ranks[i].repeat(n as usize);
            f[0] = ranks.join("/");
            f.join(" ")
        }
        Mut::DropRank(r) => {
            let mut f: Vec<String> = s.split(' ').map(|x| x.to_string()).collect();
            let mut ranks: Vec<&str> = f[0].split('/').collect();
            let i = r as usize % ranks.len();
            ranks.remove(i);
            let joined = ranks.join("/");
            f[0] = joined;
            f.join(" ")
        }
        Mut::AddRank(r) => {
            let mut f: Vec<String> = s.split(' ').map(|x| x.to_string()).collect();
            let mut ranks: Vec<&str> = f[0].split('/').collect();
            let i = r as usize % ranks.len();
            ranks.insert(i, ranks[i]);
            let joined = ranks.join("/");
            f[0] = joined;
            f.join(" ")
        }
        Mut::Counter(which, n) => {
            let mut f: Vec<String> = s.split(' ').map(|x| x.to_string()).collect();
            if f.len() >= 6 {
                f[4 + (which as usize % 2)] = NUMBERS[n as usize % NUMBERS.len()].to_string();
            }
            f.join(" ")
        }
        Mut::Truncate(p) => chars[..at(p).min(chars.len())].iter().collect(),
    }
}

/// "Never hangs": every call of a reader is entered into a table (thread, what, text, since when);
/// a watcher thread looks at the table once a second and, if one call has been running for more
/// than HANG_LIMIT, writes the input as a replay file, prints the VIOLATION line and ends the
/// process with exit code 1 (a thread stuck in foreign code cannot be stopped, only left behind).
/// The readers answer in microseconds even for megabyte inputs; the limit is generous.
const HANG_LIMIT: std::time::Duration = std::time::Duration::from_secs(60);

struct Running {
    what: &'static str,
    text: String,
    since: std::time::Instant,
}

fn hang_table() -> &'static std::sync::Mutex<std::collections::HashMap<std::thread::ThreadId, Running>> {
    static T: std::sync::OnceLock<std::sync::Mutex<std::collections::HashMap<std::thread::ThreadId, Running>>> = std::sync::OnceLock::new();
    T.get_or_init(|| {
        std::thread::spawn(|| loop {
            std::thread::sleep(std::time::Duration::from_secs(1));
            let stuck: Option<(&'static str, String)> = {
                let t = hang_table().lock().unwrap_or_else(|e| e.into_inner());
                t.values().find(|r| r.since.elapsed() > HANG_LIMIT).map(|r| (r.what, r.text.clone()))
            };
            if let Some((what, text)) = stuck {
                let check = if what == "FEN" { "fen_parser_total" } else { "san_parser_total" };
                let case = if what == "FEN" { json!({"Unicode": text}) } else { json!({"Unicode": text}) };
                let message = format!("reading {} as {} has not returned for {:?}: the reader hangs", show(&text), if what == "FEN" { "FEN" } else { "algebraic move text" }, HANG_LIMIT);
                crate::runner::emergency_violation("C14", check, case, &message);
            }
        });
        std::sync::Mutex::new(std::collections::HashMap::new())
    })
}

fn watched<T>(what: &'static str, s: &str, f: impl FnOnce() -> T) -> T {
    let id = std::thread::current().id();
    hang_table().lock().unwrap_or_else(|e| e.into_inner()).insert(id, Running { what, text: s.to_string(), since: std::time::Instant::now() });
    let r = f();
    hang_table().lock().unwrap_or_else(|e| e.into_inner()).remove(&id);
    r
}

fn parse_fen(s: &str) -> Result<bool, String> {
    match watched("FEN", s, || std::panic::catch_unwind(|| try_from_notation::<State, Fen>(s).is_ok())) {
        Ok(ok) => Ok(ok),
        Err(p) => Err(crate::runner::panic_message(&p)),
    }
}

fn parse_san(s: &str) -> Result<bool, String> {
    match watched("SAN", s, || std::panic::catch_unwind(|| try_from_notation::<MoveQuery, San>(s).is_ok())) {
        Ok(ok) => Ok(ok),
        Err(p) => Err(crate::runner::panic_message(&p)),
    }
}

fn show(s: &str) -> String {
    let e: String = s.chars().take(300).flat_map(|c| c.escape_debug()).collect();
    format!("\"{}\"{}", e, if s.chars().count() > 300 { format!("… ({} chars)", s.chars().count()) } else { String::new() })
}

// --------------------------------------------------------------------------- FEN strings

#[derive(Debug, Clone, Serialize, Deserialize)]
pub enum FenInput {
    Mutated(BuildCase, Vec<Mut>),
    Alphabet(String),
    Unicode(String),
    Huge(u8, u32),
}

pub fn fen_text(input: &FenInput) -> String {
    match input {
        FenInput::Mutated(b, muts) => {
            let base = gen::build(b).map(|p| p.fen()).unwrap_or_else(|| "8/8/8/8/8/8/8/8 w - - 0 1".to_string());
            muts.iter().fold(base, |s, m| apply_mut(&s, *m))
        }
        FenInput::Alphabet(s) | FenInput::Unicode(s) => s.clone(),
        FenInput::Huge(c, n) => {
            let unit = ["8", "8/", "k", " ", "1/", "9", "w - - 0 1 "][*c as usize % 7];
            unit.repeat((*n as usize % 100_000) / unit.len().max(1) + 1)
        }
    }
}

pub fn fen_input_strategy() -> impl Strategy<Value = FenInput> {
    prop_oneof![
        10 => (gen::build_strategy(20), prop::collection::vec(mut_strategy(), 0..=4)).prop_map(|(b, m)| FenInput::Mutated(b, m)),
        3 => "[rnbqkpRNBQKP1-8/ wb\\-a-h0-9KQkq]{0,120}".prop_map(FenInput::Alphabet),
        1 => "([rnbqkpRNBQKP1-8]{1,12}/){7}[rnbqkpRNBQKP1-8]{1,40} [wb] (-|[KQkq]{1,4}) (-|[a-h][1-8]) [0-9]{1,25} [0-9]{1,25}".prop_map(FenInput::Alphabet),
        2 => any::<String>().prop_map(FenInput::Unicode),
        1 => (0u8..7, any::<u32>()).prop_map(|(a, b)| FenInput::Huge(a, b)),
    ]
}

pub struct FenStrings;

impl Prop for FenStrings {
    type Case = FenInput;
    fn name(&self) -> &'static str {
        "fen_parser_total"
    }
    fn strategy(&self, _: &Ctx) -> BoxedStrategy<FenInput> {
        fen_input_strategy().boxed()
    }
    fn test(&self, _: &Ctx, case: &FenInput, loc: &mut Local) -> Result<(), String> {
        let text = fen_text(case);
        loc.eval();
        match parse_fen(&text) {
            Err(p) => Err(format!("reading {} as FEN panicked: {}", show(&text), p)),
            Ok(accepted) => {
                let canonical = crate::oracle::rules::Pos::from_fen(&text).map(|p| p.fen() == text).unwrap_or(false);
                if accepted {
                    loc.class("accepted");
                    if !canonical {
                        // passed the reader's gate without being canonical: the interesting region
                        loc.class("accepted_but_not_canonical");
                        loc.nontrivial(&text);
                    }
                } else {
                    loc.class("rejected");
                }
                if let FenInput::Mutated(_, m) = case {
                    if m.iter().any(|x| matches!(x, Mut::DigitFlood(..))) {
                        loc.class("digit_flood");
                    }
                    if !m.is_empty() && !canonical {
                        loc.nontrivial(&text);
                    }
                }
                if text.len() > 1000 {
                    loc.class("longer_than_1000_bytes");
                }
                if !text.is_ascii() {
                    loc.class("non_ascii");
                }
                loc.sample(|| json!({"text": show(&text), "accepted": accepted}));
                Ok(())
            }
        }
    }
}

// --------------------------------------------------------------------------- SAN strings

#[derive(Debug, Clone, Serialize, Deserialize)]
pub enum SanInput {
    Mutated(BuildCase, u16, u16, Vec<Mut>),
    Alphabet(String),
    Unicode(String),
}

pub fn san_text(input: &SanInput) -> String {
    match input {
        SanInput::Mutated(b, mv, sp, muts) => {
            let base = gen::build(b)
                .and_then(|p| {
                    let legal = p.legal();
                    if legal.is_empty() {
                        return None;
                    }
                    let (m, s) = &legal[pick_index(*mv, legal.len())];
                    let sps = san::spellings(&p, &legal, m, s);
                    Some(sps[pick_index(*sp, sps.len())].text.clone())
                })
                .unwrap_or_else(|| "e4".to_string());
            muts.iter().fold(base, |s, m| apply_mut(&s, *m))
        }
        SanInput::Alphabet(s) | SanInput::Unicode(s) => s.clone(),
    }
}

pub struct SanStrings;

impl Prop for SanStrings {
    type Case = SanInput;
    fn name(&self) -> &'static str {
        "san_parser_total"
    }
    fn strategy(&self, _: &Ctx) -> BoxedStrategy<SanInput> {
        prop_oneof![
            6 => (gen::build_strategy(12), any::<u16>(), any::<u16>(), prop::collection::vec(mut_strategy(), 0..=3)).prop_map(|(b, m, s, mu)| SanInput::Mutated(b, m, s, mu)),
            4 => "[KQRBNPa-h1-8x=+#O\\-]{0,12}".prop_map(SanInput::Alphabet),
            2 => any::<String>().prop_map(SanInput::Unicode),
        ]
        .boxed()
    }
    fn test(&self, _: &Ctx, case: &SanInput, loc: &mut Local) -> Result<(), String> {
        let text = san_text(case);
        loc.eval();
        match parse_san(&text) {
            Err(p) => Err(format!("reading {} as algebraic move text panicked: {}", show(&text), p)),
            Ok(accepted) => {
                loc.class(if accepted { "accepted" } else { "rejected" });
                if text.chars().count() >= 2 && (accepted || matches!(case, SanInput::Mutated(_, _, _, m) if !m.is_empty())) {
                    loc.nontrivial(&text);
                }
                if !text.is_ascii() {
                    loc.class("non_ascii");
                }
                loc.sample(|| json!({"text": show(&text), "accepted": accepted}));
                Ok(())
            }
        }
    }
}

// ------------------------------------------------------------------------------ UCI lines

const BAD_TOKENS: [&str; 24] = [
    "e2", "e", "", "e2e", "é2e4", "e2é4", "e2e4♔", "♔♔", "e2e4qq", "e2e4x", "a0a1", "i2i4", "e2e9", "0000", "E2E4", "e2-e4",
    "e7e8k", "e7e8Q", "\u{0}\u{0}\u{0}\u{0}", "ééé", "e2e4 ", "😀😀", "٣٣٣٣", "e2e4e2e4e2e4",
];

#[derive(Debug, Clone, Serialize, Deserialize)]
pub enum UciLine {
    /// position startpos moves <valid prefix of a game> + bad tokens
    StartposMoves(u8, Vec<u8>),
    /// position fen <mutated fen> [moves <tokens>]
    PositionFen(FenInput, Vec<u8>),
    GoBad(u8, u8),
    Unknown(String),
    Blank(u8),
    Long(u8, u32),
    PositionOdd(u8),
    /// words of the UCI protocol (commands, their keywords, values) in any order and number: a line
    /// shaped like a command whose arguments are missing, doubled or shuffled
    Soup(Vec<u8>),
    /// a protocol command word followed by ITS OWN keywords and values, shuffled, doubled or missing
    CommandSoup(u8, Vec<u8>),
    /// a well-formed FEN of a board no game can reach but with one king each and the side not to move
    /// not in check (pawns on the first and last rank, nine queens, twelve knights ...), then a short search
    OddBoard(u8),
}

const ODD_BOARDS: [&str; 10] = [
    "P3k3/8/8/8/8/8/8/4K3 w - - 0 1",
    "4k3/8/8/8/8/8/8/P3K3 w - - 0 1",
    "4k2p/8/8/8/8/8/8/4K3 b - - 0 1",
    "4k3/8/8/8/8/8/8/p3K2P b - - 0 1",
    "pppp1k2/8/8/8/8/8/8/PPPP1K2 w - - 0 1",
    "QQQQQ3/QQQQ4/8/8/8/8/6k1/K7 b - - 0 1",
    "NNNNNN2/NNNNNN2/8/8/8/8/6k1/K7 w - - 0 1",
    "4k3/pppppppp/pppppppp/8/8/PPPPPPPP/PPPPPPPP/4K3 w - - 0 1",
    "bbbbk3/bbbb4/8/8/8/8/4BBBB/3KBBBB w - - 0 1",
    "rrrrkrrr/8/8/8/8/8/8/RRRRKRRR w - - 0 1",
];

/// The protocol's vocabulary (UCI specification), also words this engine does not implement: a
/// handler added later meets the same lines.
const VOCABULARY: [&str; 56] = [
    "uci", "debug", "on", "off", "isready", "setoption", "name", "value", "register", "later", "code", "ucinewgame",
    "position", "startpos", "fen", "moves", "go", "searchmoves", "ponder", "wtime", "btime", "winc", "binc", "movestogo",
    "depth", "nodes", "mate", "movetime", "infinite", "stop", "ponderhit", "Hash", "OwnBook", "Threads", "true", "false",
    "0", "1", "-1", "8", "100", "4294967296", "e2e4", "e7e5", "e7e8q", "a1", "8/8/8/8/8/2K5/7R/k7", "w", "b", "-", "KQkq",
    "rnbqkbnr/pppppppp/8/8/8/8/PPPPPPPP/RNBQKBNR", ".state", "=", "\t", "",
];

const COMMAND_WORDS: [(&str, &[&str]); 10] = [
    ("setoption", &["name", "value", "name", "value", "Hash", "OwnBook", "Threads", "Clear Hash", "true", "false", "8", "-1", "", "x"]),
    ("go", &["searchmoves", "ponder", "wtime", "btime", "winc", "binc", "movestogo", "depth", "nodes", "mate", "movetime", "infinite", "0", "1", "-1", "100", "4294967296", "e2e4", "x"]),
    ("position", &["startpos", "fen", "moves", "moves", "e2e4", "e7e5", "e7e8q", "a1", "8/8/8/8/8/2K5/7R/k7", "w", "b", "-", "KQkq", "0", "1", "rnbqkbnr/pppppppp/8/8/8/8/PPPPPPPP/RNBQKBNR"]),
    ("debug", &["on", "off", "true", "on"]),
    ("register", &["later", "name", "code", "x", "1"]),
    ("uci", &["uci", "name", "1"]),
    ("ucinewgame", &["ucinewgame", "startpos", "1"]),
    ("stop", &["stop", "go", "1"]),
    ("ponderhit", &["ponderhit", "e2e4", "1"]),
    (".state", &[".state", "fen", "1"]),
];

#[derive(Debug, Clone, Serialize, Deserialize)]
pub struct UciCase {
    pub lines: Vec<UciLine>,
}

const GAME: [&str; 10] = ["e2e4", "e7e5", "g1f3", "b8c6", "f1b5", "a7a6", "b5a4", "g8f6", "e1g1", "f8e7"];

pub fn uci_text(l: &UciLine) -> Vec<String> {
    match l {
        UciLine::StartposMoves(k, toks) => {
            let mut v: Vec<&str> = GAME[..(*k as usize % (GAME.len() + 1))].to_vec();
            for t in toks {
                v.push(BAD_TOKENS[*t as usize % BAD_TOKENS.len()]);
            }
            vec![format!("position startpos moves {}", v.join(" "))]
        }
        UciLine::PositionFen(f, toks) => {
            let mut s = format!("position fen {}", fen_text(f).replace('\n', " ").replace('\r', " "));
            if !toks.is_empty() {
                s.push_str(" moves");
                for t in toks {
                    s.push(' ');
                    s.push_str(BAD_TOKENS[*t as usize % BAD_TOKENS.len()]);
                }
            }
            // nothing is searched on a possibly king-less board: go back to the start position
            vec![s, "position startpos".to_string()]
        }
        UciLine::GoBad(kind, n) => {
            let num = NUMBERS[*n as usize % NUMBERS.len()];
            let s = match kind % 6 {
                0 => format!("go depth {}", num),
                1 => format!("go movetime {}", num),
                2 => "go depth".to_string(),
                3 => format!("go wtime {} btime {}", num, num),
                4 => format!("go depth {} movetime", num),
                _ => format!("go ♔ {}", num),
            };
            // at the start position the book answers at once; from a legal position outside the
            // book a real search is started with whatever the engine made of the arguments, and
            // stop collects it
            let position = if (kind / 6) % 2 == 0 { "position startpos" } else { "position fen 8/8/8/8/8/2K5/7R/k7 w - - 0 1" };
            vec![position.to_string(), s, "stop".to_string()]
        }
        UciLine::Unknown(s) => vec![s.replace('\n', " ").replace('\r', " ")],
        UciLine::Blank(k) => vec![["", " ", "\t", "   \t  ", "\u{a0}"][*k as usize % 5].to_string()],
        UciLine::Long(c, n) => {
            let unit = ["position startpos moves e2e4 ", "x", "go ", "é", "position fen 8/"][*c as usize % 5];
            vec![unit.repeat((*n as usize % 1_000_000) / unit.len() + 1)]
        }
        UciLine::PositionOdd(k) => vec![[
            "position",
            "position fen",
            "position moves e2e4",
            "position startpos moves",
            "position fen moves",
            "position startpos fen 8/8/8/8/8/8/8/8 w - - 0 1",
            "position kiwipete",
        ][*k as usize % 7]
            .to_string()],
        UciLine::OddBoard(k) => {
            vec![format!("position fen {}", ODD_BOARDS[*k as usize % ODD_BOARDS.len()]), "go depth 2 movetime 4000".to_string(), "stop".to_string(), "position startpos".to_string()]
        }
        UciLine::CommandSoup(c, words) => {
            // the commands with keyword/value pairs three and two times as often as the bare ones
            let pick = [0usize, 0, 0, 0, 1, 1, 2, 2, 3, 4, 5, 6, 7, 8, 9][*c as usize % 15];
            let (cmd, own) = COMMAND_WORDS[pick];
            let mut v = vec![cmd];
            v.extend(words.iter().map(|w| own[*w as usize % own.len()]));
            vec![v.join(" "), "stop".to_string(), "position startpos".to_string()]
        }
        UciLine::Soup(words) => {
            let mut v: Vec<&str> = words.iter().map(|w| VOCABULARY[*w as usize % VOCABULARY.len()]).collect();
            // not as the command word: isready (its answer would be taken for the answer to the probe
            // that follows every line); quit is not in the vocabulary at all (a well-formed request to leave)
            while v.first().map(|w| w.trim().is_empty() || *w == "isready").unwrap_or(false) {
                v.remove(0);
            }
            let line = v.join(" ");
            // whatever it did to the session (a search may be running on some position now): stop it and
            // go back to a known position, like after the mutated FENs
            vec![line, "stop".to_string(), "position startpos".to_string()]
        }
    }
}

pub struct UciLines;

impl Prop for UciLines {
    type Case = UciCase;
    fn name(&self) -> &'static str {
        "uci_survives_malformed_lines"
    }
    fn parallelism(&self, ctx: &Ctx) -> usize {
        ctx.threads.min(12)
    }
    fn max_shrink_iters(&self) -> u32 {
        60
    }
    fn strategy(&self, _: &Ctx) -> BoxedStrategy<UciCase> {
        let line = prop_oneof![
            5 => (0u8..=10, prop::collection::vec(0u8..24, 1..4)).prop_map(|(k, t)| UciLine::StartposMoves(k, t)),
            4 => (fen_input_strategy(), prop::collection::vec(0u8..24, 0..3)).prop_map(|(f, t)| UciLine::PositionFen(f, t)),
            4 => (0u8..12, 0u8..12).prop_map(|(a, b)| UciLine::GoBad(a, b)),
            2 => "[a-z♔é ]{0,30}".prop_map(UciLine::Unknown),
            1 => any::<String>().prop_map(UciLine::Unknown),
            1 => (0u8..5).prop_map(UciLine::Blank),
            1 => (0u8..5, any::<u32>()).prop_map(|(a, b)| UciLine::Long(a, b)),
            2 => (0u8..7).prop_map(UciLine::PositionOdd),
            3 => prop::collection::vec(0u8..(VOCABULARY.len() as u8), 1..9).prop_map(UciLine::Soup),
            2 => (0u8..(ODD_BOARDS.len() as u8)).prop_map(UciLine::OddBoard),
            8 => (0u8..15, prop::collection::vec(any::<u8>(), 0..7)).prop_map(|(c, w)| UciLine::CommandSoup(c, w)),
        ];
        prop::collection::vec(line, 1..8).prop_map(|lines| UciCase { lines }).boxed()
    }
    fn test(&self, _: &Ctx, case: &UciCase, loc: &mut Local) -> Result<(), String> {
        let mut u = Uci::spawn()?;
        let wait = Duration::from_secs(30);
        u.send("isready");
        if u.wait_out(wait, "readyok").is_none() {
            return Err(format!("the UCI process does not answer the first isready\n{}", u.transcript()));
        }
        for l in case.lines.iter() {
            for text in uci_text(l) {
                loc.eval();
                let alive = u.send(&text);
                u.send("isready");
                if !alive || u.wait_out(wait, "readyok").is_none() {
                    let status = u.wait_exit(Duration::from_secs(2));
                    let stderr: Vec<String> = u.log.iter().filter_map(|l| if let Line::Err(s) = l { Some(s.clone()) } else { None }).collect();
                    return Err(format!(
                        "after the line {} the UCI process no longer answers isready (exit status {:?}; stderr: {})",
                        show(&text), status, stderr.join(" | ").chars().take(400).collect::<String>()
                    ));
                }
                if text.starts_with("position") && text.len() > 9 || text.starts_with("go") {
                    loc.nontrivial(&text);
                }
            }
            loc.class(match l {
                UciLine::StartposMoves(..) => "startpos_moves_bad_tokens",
                UciLine::PositionFen(..) => "position_fen_mutated",
                UciLine::GoBad(..) => "go_bad_numbers",
                UciLine::Unknown(_) => "unknown_command",
                UciLine::Blank(_) => "blank_line",
                UciLine::Long(..) => "long_line",
                UciLine::PositionOdd(_) => "position_odd_shape",
                UciLine::Soup(_) => "protocol_word_soup",
                UciLine::OddBoard(_) => "unreachable_board_searched",
                UciLine::CommandSoup(..) => "command_with_shuffled_keywords",
            });
        }
        u.send("quit");
        match u.wait_exit(wait) {
            Some(Some(0)) => {}
            other => return Err(format!("after malformed lines, quit ended the process with {:?} instead of status 0\n{}", other, u.transcript())),
        }
        loc.sample(|| json!({"lines": case.lines.iter().flat_map(uci_text).map(|s| show(&s)).collect::<Vec<_>>()}));
        Ok(())
    }
}


// ------------------------------------------- the `position` command's library path, in process

/// `position fen <canonical FEN of a legal position with extreme counters> moves <legal moves>`:
/// the FEN reader, the coordinate resolver and the move application must get through it without
/// panicking in any build profile (the counters are "huge numbers", the rest is well formed).
#[derive(Debug, Clone, Serialize, Deserialize)]
pub struct PositionCase {
    pub build: BuildCase,
    pub half: u16,
    pub full: u16,
    pub picks: Vec<u16>,
}

const EXTREME: [u64; 10] = [0, 99, 100, 65_535, 4_294_967_295, 4_294_967_296, (1 << 63) - 1, 1 << 63, u64::MAX - 1, u64::MAX];

pub struct PositionCommand;

impl Prop for PositionCommand {
    type Case = PositionCase;
    fn name(&self) -> &'static str {
        "position_command_in_process"
    }
    fn strategy(&self, _: &Ctx) -> BoxedStrategy<PositionCase> {
        (gen::build_strategy(10), any::<u16>(), any::<u16>(), prop::collection::vec(any::<u16>(), 0..6))
            .prop_map(|(build, half, full, picks)| PositionCase { build, half, full, picks })
            .boxed()
    }
    fn test(&self, _: &Ctx, case: &PositionCase, loc: &mut Local) -> Result<(), String> {
        let Some(mut p) = gen::build(&case.build) else { return Ok(()) };
        p.half = EXTREME[pick_index(case.half, EXTREME.len())];
        p.full = EXTREME[pick_index(case.full, EXTREME.len())];
        // legal moves chosen by the oracle (its own clocks wrap harmlessly: only the squares are used)
        let mut tokens: Vec<String> = vec![];
        let mut cur = p.clone();
        cur.half = 0;
        cur.full = 1;
        for pk in case.picks.iter() {
            let legal = cur.legal();
            if legal.is_empty() {
                break;
            }
            let (m, n) = gen::choose(&cur, &legal, *pk).clone();
            tokens.push(m.lan());
            cur = n;
        }
        let fen = p.fen();
        loc.eval();
        let line = format!("position fen {} moves {}", fen, tokens.join(" "));
        let r = std::panic::catch_unwind(|| {
            let Ok(state) = try_from_notation::<State, Fen>(&fen) else { return Err("the canonical FEN was rejected".to_string()) };
            // the same construction as the UCI loop
            let mut queries = vec![];
            for t in tokens.iter() {
                let (Some(a), Some(b)) = (t.get(0..2), t.get(2..4)) else { return Err(format!("token {}", t)) };
                let (Ok(o), Ok(d)) = (weechess_core::Square::try_from(a), weechess_core::Square::try_from(b)) else { return Err(format!("token {}", t)) };
                let mut q = MoveQuery::by_moving_from_to(o, d);
                if let Some(c) = t.chars().nth(4) {
                    q.set_promotion(match c {
                        'q' => weechess_core::Piece::Queen,
                        'r' => weechess_core::Piece::Rook,
                        'b' => weechess_core::Piece::Bishop,
                        _ => weechess_core::Piece::Knight,
                    });
                }
                queries.push(q);
            }
            match State::by_performing_moves(&state, &queries) {
                Ok(_) => Ok(()),
                Err(e) => Err(format!("the legal move list was rejected: {}", e)),
            }
        });
        match r {
            Err(panic) => Err(format!("handling the line '{}' panicked: {}", line, crate::runner::panic_message(&panic))),
            Ok(Err(m)) => Err(format!("handling the line '{}': {}", line, m)),
            Ok(Ok(())) => {
                if p.half > 100 || p.full > 100 {
                    loc.nontrivial(&line);
                    loc.class("huge_counter");
                }
                if !tokens.is_empty() {
                    loc.class("with_moves");
                }
                loc.sample(|| json!({"line": line}));
                Ok(())
            }
        }
    }
}

// ------------------------------------------------------------------ plain release build

/// Re-runs the two in-process parser checks in the plain release build of the harness
/// (no debug assertions, no overflow checks): "in any build profile".
pub struct PlainBuild;

impl DynProp for PlainBuild {
    fn name(&self) -> &'static str {
        "parsers_plain_release_build"
    }
    fn run(&self, ctx: &Ctx, cases: u64) {
        let Ok(bin) = std::env::var("VERIF_PLAIN_BIN") else {
            eprintln!("HARNESS: VERIF_PLAIN_BIN is not set (run through ./check)");
            std::process::exit(2);
        };
        let out = std::process::Command::new(&bin)
            .args(["C14", ctx.tier.name(), "--plain-child"])
            .env("VERIF_SEED", ctx.seed.to_string())
            .env("VERIF_PLAIN_CASES", cases.to_string())
            .output();
        let out = match out {
            Ok(o) => o,
            Err(e) => {
                eprintln!("HARNESS: cannot run {}: {}", bin, e);
                std::process::exit(2);
            }
        };
        let stdout = String::from_utf8_lossy(&out.stdout).to_string();
        let summary: Value = stdout
            .lines()
            .find_map(|l| l.strip_prefix("PLAIN-SUMMARY "))
            .and_then(|j| serde_json::from_str(j).ok())
            .unwrap_or(Value::Null);
        if summary.is_null() {
            eprintln!("HARNESS: the plain-build child printed no summary (status {:?})", out.status.code());
            std::process::exit(2);
        }
        if let Some(vs) = summary["violations"].as_array() {
            for v in vs {
                ctx.violation(
                    v["check"].as_str().unwrap_or("fen_parser_total"),
                    v["case"].clone(),
                    format!("plain release build: {}", v["message"].as_str().unwrap_or("")),
                );
            }
        }
        let mut loc = Local::new();
        loc.evals_n(summary["evaluations"].as_u64().unwrap_or(0));
        ctx.merge("parsers_plain_release_build", loc);
        ctx.part(json!({"check": "parsers_plain_release_build", "engine": "proptest (child process, plain release profile)", "summary": summary}));
    }
    fn replay(&self, _: &Ctx, _: &Value) -> Result<(), String> {
        Ok(())
    }
}

/// entry point of the plain-build child
pub fn plain_child(ctx: &Ctx) -> i32 {
    let cases: u64 = std::env::var("VERIF_PLAIN_CASES").ok().and_then(|s| s.parse().ok()).unwrap_or(10_000);
    FenStrings.run(ctx, cases);
    SanStrings.run(ctx, cases);
    PositionCommand.run(ctx, cases / 4);
    let (evals, violations) = ctx.plain_summary();
    println!("PLAIN-SUMMARY {}", json!({"evaluations": evals, "violations": violations}));
    0
}

pub fn plan(ctx: &Ctx) -> Plan {
    let t = ctx.tier;
    Plan {
        props: vec![
            (Box::new(FenStrings), t.pick(400_000, 10_000_000)),
            (Box::new(SanStrings), t.pick(1_000_000, 30_000_000)),
            (Box::new(PositionCommand), t.pick(200_000, 5_000_000)),
            (Box::new(PlainBuild), t.pick(300_000, 5_000_000)),
            (Box::new(UciLines), t.pick(400, 10_000)),
            (Box::new(crate::fuzzdrv::target("parsers_raw")), t.pick(0, 60_000)),
            (Box::new(crate::fuzzdrv::target("parsers_grammar")), t.pick(0, 60_000)),
        ],
        rule: "FEN: canonical strings written by the independent oracle from constructed positions, then 0-4 mutations \
               (delete/duplicate/insert odd and multi-byte characters, swap/drop/duplicate fields, digit floods of 8-64 \
               digits inside the placement, over-long ranks, 7 or 9 ranks, extreme and non-ASCII counters, truncation); \
               strings over the FEN alphabet and a loose FEN-shaped regex; arbitrary Unicode; 100 kB repetitions. SAN: \
               admissible spellings from the oracle writer with 0-3 mutations, strings over the SAN alphabet, arbitrary \
               Unicode. The library path of `position fen F moves ...` (FEN reader, coordinate resolver, move application) is \
               run in process on canonical FENs of legal positions with extreme counters (up to 2^64-1) and legal move \
               lists. Each call must return Ok or Err under catch_unwind, in the checked build (debug assertions and \
               overflow checks on) and, in a child process, in the plain release build. UCI: sessions of 1-7 malformed \
               lines (position startpos moves + truncated/over-long/multi-byte tokens, position fen + mutated FEN, go with \
               bad numbers, odd position shapes, unknown/blank/1 MB lines); after every line isready must be answered with \
               readyok, and quit must end the process with status 0. A go is only sent at the start position (book answer) or at a fixed legal \
               position outside the book, where a real search starts with whatever the engine made of the arguments \
               (searching a king-less board is not malformed text). Non-trivial = distinct strings that pass the FEN reader's gate \
               without being canonical or were mutated; SAN strings of length >= 2 that are accepted or mutated; UCI \
               lines that reach argument parsing.",
        assumptions: &["hangs are excluded by bounding input size (<= 1 MB); a stuck harness is exit 2, not a violation", "go with malformed arguments is sent at the start position and at one legal position outside the book"],
        self_test: super::oracle_self_test,
        post: None,
    }
}
