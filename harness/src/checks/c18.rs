//! C18 — ucinewgame starts from a clean search memory (process level).

use super::c06::{tb_self_test, tbdata};
use super::Plan;
use crate::oracle::rules::{Mv, Pos};
use crate::oracle::tb::Wdl;
use crate::procdrv::{Line, Uci};
use crate::runner::{pick_index, Ctx, Local, Prop};
use proptest::prelude::*;
use serde::{Deserialize, Serialize};
use serde_json::json;
use std::sync::OnceLock;
use std::time::Duration;

/// Tablebase positions with a mate in n plies (n = 1, 3) through exactly one first move, every
/// other first move needing at least n + 6 plies (or not winning at all).
pub struct Targets {
    pub list: Vec<(Pos, u32, Mv, Pos)>,
}

pub fn targets() -> &'static Targets {
    static T: OnceLock<Targets> = OnceLock::new();
    T.get_or_init(|| {
        let d = tbdata();
        let mut list = vec![];
        for (wi, n) in [(0usize, 1u32), (1, 3)] {
            for p in d.wins[wi].iter() {
                let legal = p.legal();
                let mut unique: Option<(Mv, Pos)> = None;
                let mut ok = true;
                for (m, s) in legal.iter() {
                    match d.tb.probe(s) {
                        Some(Wdl::Loss(k)) if k as u32 == n - 1 => {
                            if unique.is_some() {
                                ok = false;
                                break;
                            }
                            unique = Some((*m, s.clone()));
                        }
                        Some(Wdl::Loss(k)) if (k as u32) < n + 5 => {
                            ok = false;
                            break;
                        }
                        _ => {}
                    }
                }
                if ok {
                    if let Some((m, s)) = unique {
                        // thin the list deterministically (the rare mate-in-1 targets are all kept)
                        if n == 1 || crate::runner::h64(&p.fen4()) % 7 == 0 {
                            list.push((p.clone(), n, m, s));
                        }
                    }
                }
            }
        }
        Targets { list }
    })
}

#[derive(Debug, Clone, Copy, Serialize, Deserialize)]
pub enum After {
    WaitBestMove,
    Stop,
    Nothing,
}

#[derive(Debug, Clone, Serialize, Deserialize)]
pub struct PrefixStep {
    /// 0 = succ(P, m), 1 = another successor of P, 2 = P itself, 3 = unrelated
    pub which: u8,
    pub pick: u16,
    pub depth: u8,
    pub after: After,
}

#[derive(Debug, Clone, Serialize, Deserialize)]
pub struct Case {
    pub target: u32,
    pub mirror: bool,
    pub prefix: Vec<PrefixStep>,
    /// a position command between the last go and ucinewgame (collects the artifact)
    pub position_before_newgame: bool,
    pub extra_depth: u8,
    /// the new game's position is set BEFORE ucinewgame; after it only go is sent
    #[serde(default)]
    pub go_without_position: bool,
}

const UNRELATED: [&str; 4] = [
    "rnbqkbnr/pppppppp/8/8/8/8/PPPPPPPP/RNBQKBNR w KQkq - 0 1",
    "8/8/8/4k3/8/8/4P3/4K3 w - - 0 1",
    "r3k2r/8/8/8/8/8/8/R3K2R w KQkq - 0 1",
    "8/2p5/3p4/KP5r/1R3p1k/8/4P1P1/8 w - - 0 1",
];

/// (last reported score in centipawns, bestmove text) of `position fen P` + `go depth d`
fn ask(u: &mut Uci, p: &Pos, depth: u32) -> Result<(Option<f64>, Option<String>), String> {
    ask_with(u, p, depth, true)
}

fn ask_with(u: &mut Uci, p: &Pos, depth: u32, send_position: bool) -> Result<(Option<f64>, Option<String>), String> {
    let mark = u.log.len();
    if send_position {
        u.send(&format!("position fen {}", p.fen()));
    }
    // with an explicit, generous movetime: otherwise the engine's default time limit (4 s) may end the
    // search before the depth is reached on a loaded machine (allocating the memory alone can take seconds),
    // and a shallower answer would be mistaken for a difference caused by the previous game
    u.send(&format!("go depth {} movetime 3600000", depth));
    if u.wait_out_prefix(Duration::from_secs(600), "bestmove").is_none() {
        return Err(format!("go depth {} on '{}' was not answered within 600 s of silence\n{}", depth, p.fen(), u.transcript()));
    }
    let mut score = None;
    let mut best = None;
    for l in u.log[mark..].iter() {
        if let Line::Out(s) = l {
            if let Some(r) = s.strip_prefix("info score cp ") {
                score = r.trim().parse::<f64>().ok();
            }
            if let Some(r) = s.strip_prefix("bestmove ") {
                best = Some(r.trim().to_string());
            }
        }
    }
    Ok((score, best))
}

pub struct NewGame;

impl Prop for NewGame {
    type Case = Case;
    fn name(&self) -> &'static str {
        "ucinewgame_clean_memory"
    }
    fn parallelism(&self, ctx: &Ctx) -> usize {
        ctx.threads.min(6)
    }
    fn max_shrink_iters(&self) -> u32 {
        30
    }
    fn max_shrink_time_ms(&self) -> u32 {
        180_000
    }
    fn strategy(&self, _: &Ctx) -> BoxedStrategy<Case> {
        let step = (
            prop_oneof![4 => Just(0u8), 2 => Just(1u8), 1 => Just(2u8), 2 => Just(3u8)],
            any::<u16>(),
            1u8..=3,
            prop_oneof![Just(After::WaitBestMove), Just(After::Stop), Just(After::Nothing)],
        )
            .prop_map(|(which, pick, depth, after)| PrefixStep { which, pick, depth, after });
        (any::<u32>(), any::<bool>(), prop::collection::vec(step, 1..=5), any::<bool>(), 0u8..=1, prop::bool::weighted(0.3))
            .prop_map(|(target, mirror, prefix, position_before_newgame, extra_depth, go_without_position)| Case { target, mirror, prefix, position_before_newgame, extra_depth, go_without_position })
            .boxed()
    }
    fn test(&self, _: &Ctx, case: &Case, loc: &mut Local) -> Result<(), String> {
        let t = targets();
        // mate-in-1 targets are rare in the list but matter (their recorded successor is a mated
        // root, which leaves no table entries behind): every second case uses one
        let ones: Vec<usize> = t.list.iter().enumerate().filter(|(_, x)| x.1 == 1).map(|x| x.0).collect();
        let idx = if case.target % 2 == 0 && !ones.is_empty() { ones[(case.target as usize / 2) % ones.len()] } else { case.target as usize % t.list.len() };
        let (p0, n, m0, s0) = &t.list[idx];
        let (p, succ) = if case.mirror { (p0.mirror(), s0.mirror()) } else { (p0.clone(), s0.clone()) };
        // the unique mating first move in coordinates (mirroring flips ranks)
        let m = p.legal().into_iter().find(|(_, s)| s.fen4() == succ.fen4()).map(|x| x.0).ok_or("mirror lost the move")?;
        let _ = m0;
        let depth = *n + case.extra_depth as u32;

        // control: a freshly started process
        let mut c = Uci::spawn()?;
        let (cscore, cbest) = ask(&mut c, &p, depth)?;
        drop(c);
        loc.eval();
        if !(cscore.map(|s| s >= 10_000.0).unwrap_or(false) && cbest.as_deref() == Some(m.lan().as_str())) {
            // the fresh process itself misses the mate: that belongs to C06, not to ucinewgame
            loc.class("control_missed_mate_discarded");
            return Ok(());
        }

        let mut u = Uci::spawn()?;
        let mut searched_succ_and_collected = false;
        let mut last_was_succ_go = false;
        let others: Vec<Pos> = p.legal().into_iter().map(|x| x.1).filter(|s| s.fen4() != succ.fen4()).collect();
        for st in case.prefix.iter() {
            let x: Pos = match st.which {
                0 => succ.clone(),
                1 if !others.is_empty() => others[pick_index(st.pick, others.len())].clone(),
                2 => p.clone(),
                _ => Pos::from_fen(UNRELATED[pick_index(st.pick, UNRELATED.len())]).unwrap(),
            };
            // a later command collects the artifact of the previous go
            if last_was_succ_go {
                searched_succ_and_collected = true;
            }
            u.send(&format!("position fen {}", x.fen()));
            u.send(&format!("go depth {}", st.depth));
            last_was_succ_go = st.which == 0;
            match st.after {
                After::WaitBestMove => {
                    if x.has_legal_move() {
                        if u.wait_out_prefix(Duration::from_secs(60), "bestmove").is_none() {
                            return Err(format!("prefix go on '{}' was not answered\n{}", x.fen(), u.transcript()));
                        }
                    } else {
                        u.drain(Duration::from_millis(300));
                    }
                }
                After::Stop => {
                    u.send("stop");
                    if last_was_succ_go {
                        searched_succ_and_collected = true;
                    }
                }
                After::Nothing => {}
            }
        }
        if case.position_before_newgame || case.go_without_position {
            // (a position command collects the artifact of a running search)
            if case.go_without_position {
                u.send(&format!("position fen {}", p.fen()));
            } else {
                u.send("position startpos");
            }
            if last_was_succ_go {
                searched_succ_and_collected = true;
            }
        }
        u.send("ucinewgame");
        u.send("isready");
        if u.wait_out(Duration::from_secs(60), "readyok").is_none() {
            return Err(format!("isready after ucinewgame was not answered\n{}", u.transcript()));
        }
        let (score, best) = ask_with(&mut u, &p, depth, !case.go_without_position)?;
        loc.eval();
        if case.go_without_position {
            loc.class("go_right_after_ucinewgame_position_set_before");
        }
        if !(score.map(|s| s >= 10_000.0).unwrap_or(false) && best.as_deref() == Some(m.lan().as_str())) {
            return Err(format!(
                "after ucinewgame, 'go depth {}' on '{}' reports score cp {:?} and bestmove {:?}; a freshly started process reports {:?} and {:?} (mate in {} plies only by {}). Positions searched before ucinewgame still influence the answer.\n{}",
                depth, p.fen(), score, best, cscore, cbest, n, m.lan(), u.transcript()
            ));
        }
        u.send("quit");
        let _ = u.wait_exit(Duration::from_secs(30));
        if searched_succ_and_collected {
            loc.class("successor_searched_and_artifact_collected_before_newgame");
            loc.nontrivial(&format!("{:?}", case));
        }
        loc.class(if *n == 1 { "mate_in_1" } else { "mate_in_3" });
        loc.sample(|| json!({"sent": u.sent, "expected_bestmove": m.lan(), "score": score}));
        Ok(())
    }
}

// ------------------------------------------------- many positions per game, several pool sizes

/// RAYON_NUM_THREADS values (None = the machine's default)
pub const POOLS: [Option<u32>; 8] = [None, Some(1), Some(2), Some(3), Some(5), Some(6), Some(12), Some(24)];

#[derive(Debug, Clone, Serialize, Deserialize)]
pub struct ManyCase {
    pub targets: Vec<u32>,
    pub pool: u8,
    pub mirror: bool,
    /// game 1 searches P itself after its successor, this much deeper than game 2 will
    pub first_game_extra_depth: u8,
}

pub struct NewGameMany;

impl Prop for NewGameMany {
    type Case = ManyCase;
    fn name(&self) -> &'static str {
        "ucinewgame_many_positions"
    }
    fn parallelism(&self, ctx: &Ctx) -> usize {
        ctx.threads.min(4)
    }
    fn max_shrink_iters(&self) -> u32 {
        20
    }
    fn max_shrink_time_ms(&self) -> u32 {
        180_000
    }
    fn strategy(&self, _: &Ctx) -> BoxedStrategy<ManyCase> {
        (prop::collection::vec(any::<u32>(), 8..=48), 0u8..(POOLS.len() as u8), any::<bool>(), 0u8..=2)
            .prop_map(|(targets, pool, mirror, first_game_extra_depth)| ManyCase { targets, pool, mirror, first_game_extra_depth })
            .boxed()
    }
    fn test(&self, _: &Ctx, case: &ManyCase, loc: &mut Local) -> Result<(), String> {
        let t = targets();
        let env: Vec<(&str, String)> = match POOLS[case.pool as usize % POOLS.len()] {
            Some(n) => vec![("RAYON_NUM_THREADS", n.to_string())],
            None => vec![],
        };
        // distinct targets, every second one a mate in 1
        let ones: Vec<usize> = t.list.iter().enumerate().filter(|(_, x)| x.1 == 1).map(|x| x.0).collect();
        let mut chosen: Vec<usize> = vec![];
        for (j, pick) in case.targets.iter().enumerate() {
            let idx = if j % 2 == 0 && !ones.is_empty() { ones[(*pick as usize) % ones.len()] } else { *pick as usize % t.list.len() };
            if !chosen.contains(&idx) {
                chosen.push(idx);
            }
        }
        let items: Vec<(Pos, Pos, String, u32)> = chosen
            .iter()
            .map(|i| {
                let (p0, n, _, s0) = &t.list[*i];
                let (p, succ) = if case.mirror { (p0.mirror(), s0.mirror()) } else { (p0.clone(), s0.clone()) };
                let m = p.legal().into_iter().find(|(_, s)| s.fen4() == succ.fen4()).map(|x| x.0.lan()).unwrap_or_default();
                (p, succ, m, *n)
            })
            .collect();
        let mut u = Uci::spawn_env(&env)?;
        // game 1: the successor becomes a search root (recorded), then P itself is searched: with the
        // mating move valued as a repetition its table entries say "no mate here"
        let mut avoided = 0usize;
        for (p, succ, m, n) in items.iter() {
            u.send(&format!("position fen {}", succ.fen()));
            u.send("go depth 1");
            if succ.has_legal_move() {
                if u.wait_out_prefix(Duration::from_secs(60), "bestmove").is_none() {
                    return Err(format!("go on '{}' was not answered\n{}", succ.fen(), u.transcript()));
                }
            } else {
                u.send("isready");
                if u.wait_out(Duration::from_secs(60), "readyok").is_none() {
                    return Err(format!("isready was not answered\n{}", u.transcript()));
                }
            }
            let (score, best) = ask(&mut u, p, *n + case.first_game_extra_depth as u32)?;
            loc.eval();
            if !(score.map(|s| s >= 10_000.0).unwrap_or(false) && best.as_deref() == Some(m.as_str())) {
                avoided += 1;
            }
        }
        u.send("ucinewgame");
        u.send("isready");
        if u.wait_out(Duration::from_secs(60), "readyok").is_none() {
            return Err(format!("isready after ucinewgame was not answered\n{}", u.transcript()));
        }
        // game 2: every P again; the answer must be the one a fresh process gives
        for (p, _, m, n) in items.iter() {
            let (score, best) = ask(&mut u, p, *n)?;
            loc.eval();
            if !(score.map(|s| s >= 10_000.0).unwrap_or(false) && best.as_deref() == Some(m.as_str())) {
                // control: a freshly started process with the same pool size
                let mut c = Uci::spawn_env(&env)?;
                let (cscore, cbest) = ask(&mut c, p, *n)?;
                drop(c);
                if cscore.map(|s| s >= 10_000.0).unwrap_or(false) && cbest.as_deref() == Some(m.as_str()) {
                    return Err(format!(
                        "after ucinewgame, 'go depth {}' on '{}' reports score cp {:?} and bestmove {:?}; a freshly started process (same pool size {:?}) reports {:?} and {:?} (mate in {} plies only by {}). In the previous game of this session {} positions, this one among them, were searched after their mating successor. Positions searched before ucinewgame still influence the answer.\n{}",
                        n, p.fen(), score, best, POOLS[case.pool as usize % POOLS.len()], cscore, cbest, n, m, items.len(), u.transcript()
                    ));
                }
                loc.class("many:control_missed_mate_discarded");
            }
        }
        u.send("quit");
        let _ = u.wait_exit(Duration::from_secs(30));
        loc.class(match POOLS[case.pool as usize % POOLS.len()] { None => "many:default_pool", Some(1) => "many:pool_1", Some(n) if n.is_power_of_two() => "many:pool_power_of_two", _ => "many:pool_other" });
        if avoided > 0 {
            // the first game really produced "no mate" answers for positions asked again later
            loc.class("many:first_game_avoided_the_mate_somewhere");
            loc.nontrivial(&format!("{:?}", case));
        }
        loc.sample(|| json!({"positions": items.len(), "pool": POOLS[case.pool as usize % POOLS.len()], "first_game_mates_avoided": avoided}));
        Ok(())
    }
}

// ------------------------------------------------- the position after ucinewgame

/// The first position command of a new game must be understood on its own, however it relates to
/// the last one of the previous game (the same line continued, shortened, repeated ...).
#[derive(Debug, Clone, Serialize, Deserialize)]
pub struct TrackCase {
    pub first: super::c07::PosSpec,
    /// 0-4 as in c07::related: taken back, continued, repeated, bare start, last move replaced
    pub relation: u8,
    pub n: u8,
    pub picks: Vec<u16>,
    pub go_before_newgame: bool,
}

pub struct NewGameTracking;

impl Prop for NewGameTracking {
    type Case = TrackCase;
    fn name(&self) -> &'static str {
        "ucinewgame_position_tracking"
    }
    fn parallelism(&self, ctx: &Ctx) -> usize {
        ctx.threads.min(8)
    }
    fn max_shrink_iters(&self) -> u32 {
        40
    }
    fn strategy(&self, _: &Ctx) -> BoxedStrategy<TrackCase> {
        (super::c07::pos_spec_strategy(), 0u8..5, any::<u8>(), prop::collection::vec(any::<u16>(), 0..4), any::<bool>())
            .prop_map(|(first, relation, n, picks, go_before_newgame)| TrackCase { first, relation, n, picks, go_before_newgame })
            .boxed()
    }
    fn test(&self, _: &Ctx, case: &TrackCase, loc: &mut Local) -> Result<(), String> {
        let (_, text1) = super::c07::resolve(&case.first);
        let (p2, text2) = super::c07::related(Some(&text1), case.relation, case.n, &case.picks);
        let mut u = Uci::spawn()?;
        u.send(&text1);
        if case.go_before_newgame {
            u.send("go depth 1");
            u.send("stop");
        }
        u.send("ucinewgame");
        u.send(&text2);
        u.send("isready");
        if u.wait_out(Duration::from_secs(60), "readyok").is_none() {
            return Err(format!("isready after ucinewgame and position was not answered\n{}", u.transcript()));
        }
        u.send(".state");
        let want = p2.fen();
        let got = u.wait_for(Duration::from_secs(30), |l| matches!(l, Line::Err(s) if s.trim().split(' ').count() == 6 && s.contains('/')));
        loc.eval();
        match got.map(|i| u.log[i].clone()) {
            Some(Line::Err(s)) if s.trim() == want => {}
            Some(Line::Err(s)) => {
                return Err(format!(
                    "after ucinewgame the first position command of the new game leaves the engine at '{}', chess rules (and a fresh process) give '{}': the previous game's last position command still matters\n{}",
                    s.trim(), want, u.transcript()
                ))
            }
            _ => return Err(format!(".state printed no position\n{}", u.transcript())),
        }
        loc.class(["tracking:moves_taken_back", "tracking:continued", "tracking:repeated", "tracking:bare_start", "tracking:last_move_replaced"][(case.relation % 5) as usize]);
        loc.nontrivial(&(text1.clone(), text2.clone()));
        loc.sample(|| json!({"game_1": text1, "game_2": text2, "state": want}));
        u.send("quit");
        let _ = u.wait_exit(Duration::from_secs(30));
        Ok(())
    }
}

pub fn plan(ctx: &Ctx) -> Plan {
    let t = ctx.tier;
    Plan {
        props: vec![(Box::new(NewGame), t.pick(60, 2_500)), (Box::new(NewGameMany), t.pick(16, 600)), (Box::new(NewGameTracking), t.pick(120, 4_000))],
        rule: "P = tablebase position (also colour-mirrored) with a mate in n = 1 or 3 plies through exactly one first move \
               m, every other first move needing at least n + 6 plies (every second case uses one of the rare n = 1 \
               targets, whose recorded successor is a mated root). Session: 1-5 x (position fen X, go depth 1-3, then \
               wait for bestmove / stop / nothing) with X among succ(P,m) (the position whose recording would hide the \
               mate), other successors of P, P itself and unrelated positions, optionally another position command, then \
               ucinewgame, isready, position fen P (in three cases out of ten sent BEFORE ucinewgame instead), go depth n or n+1 (sent with a one-hour movetime so that the engine's default time limit cannot cut the search short on a loaded machine). The answer must be score cp >= 10000 and bestmove \
               m, exactly what a freshly started control process answers for the same two commands; a case whose control \
               run misses the mate is discarded and counted (that would be C06's business). Non-trivial = distinct \
               sessions in which succ(P,m) was a search root before ucinewgame and that search's artifact had been \
               collected (by stop, position or a later go). Second part (ucinewgame_many_positions): one session, worker \
               pool size RAYON_NUM_THREADS in {default, 1, 2, 3, 5, 6, 12, 24}: game 1 = for each of 8-48 targets, go depth 1 \
               on succ(P,m) and then go depth n..n+2 on P (the mate is then a repetition, the table says 'no mate'); \
               ucinewgame; game 2 = go depth n on every P: each answer must be the unique mate, unless a fresh process of \
               the same pool size misses it too (discarded, counted). Third part (ucinewgame_position_tracking): a position \
               command, optionally a short search, ucinewgame, then a position command related to the first (same start; \
               moves taken back, continued, repeated, bare start, last move replaced): .state must print the FEN chess \
               rules define for the second command alone.",
        assumptions: &[
            "the oracle is seed-independent (the UCI client seeds itself from the OS); by C06 a fresh process finds these mates for every seed",
            "stale transposition-table content that does not change the answer is not observable by this oracle",
        ],
        self_test: |ctx| {
            tb_self_test(ctx)?;
            if targets().list.len() < 50 {
                return Err(format!("only {} C18 target positions", targets().list.len()));
            }
            crate::procdrv::binary_exists()
        },
        post: None,
    }
}
