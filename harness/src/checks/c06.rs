//! C06 — mate claims are true and shallow forced mates are found.

use super::c03::{source_pos, sparse_source, Source, WORKERS};
use super::Plan;
use crate::oracle::rules::Pos;
use crate::oracle::solver::{self, Solver};
use crate::oracle::tb::{Tb, Wdl};
use crate::runner::{par_range, pick_index, Ctx, DynProp, Local, Prop};
use crate::search::{self, Geometry, SearchOut, SearchSpec, POS_INF};
use proptest::prelude::*;
use serde::{Deserialize, Serialize};
use serde_json::{json, Value};
use std::sync::{Mutex, OnceLock};

pub struct TbData {
    pub tb: Tb,
    /// positions (White has the piece) where the side to move mates in exactly 1 / 3 / 5 plies
    pub wins: [Vec<Pos>; 3],
}

pub fn tbdata() -> &'static TbData {
    static D: OnceLock<TbData> = OnceLock::new();
    D.get_or_init(|| {
        let tb = Tb::build(16);
        let wins = [
            tb.positions_with(Wdl::Win(1)),
            tb.positions_with(Wdl::Win(3)),
            tb.positions_with(Wdl::Win(5)),
        ];
        TbData { tb, wins }
    })
}

pub fn tb_self_test(ctx: &Ctx) -> Result<(), String> {
    super::oracle_self_test(ctx)?;
    let d = tbdata();
    d.tb.self_test()?;
    if d.wins.iter().any(|w| w.is_empty()) {
        return Err("tablebase has no mate-in-1/3/5 positions".into());
    }
    Ok(())
}

pub const GEOM: Geometry = Geometry { tables: 8, buckets: 1024 };

/// Soundness on tablebase positions: every report with a winning terminal evaluation needs a
/// tablebase win for the side to move and a first move that keeps it.
pub fn judge_claims_tb(tb: &Tb, root: &Pos, out: &SearchOut, what: &str) -> Result<usize, String> {
    let mut claims = 0;
    for b in out.best.iter() {
        search::check_line(root, &b.line).map_err(|e| format!("{}: {}", what, e))?;
        if b.eval >= POS_INF {
            claims += 1;
            match tb.probe(root) {
                Some(Wdl::Win(_)) => {}
                v => {
                    return Err(format!(
                        "{}: reported the winning terminal evaluation {} but the tablebase value of the root is {:?}",
                        what, b.eval, v
                    ))
                }
            }
            let succ = root.apply(&b.line[0]);
            match tb.probe(&succ) {
                Some(Wdl::Loss(_)) => {}
                v => {
                    return Err(format!(
                        "{}: reported a forced mate (evaluation {}) with first move {}, but after it the opponent's tablebase value is {:?}, not a loss",
                        what, b.eval, b.line[0].lan(), v
                    ))
                }
            }
        }
    }
    Ok(claims)
}

// ------------------------------------------------------------- completeness (tablebase)

#[derive(Debug, Clone, Serialize, Deserialize)]
pub struct TbMateCase {
    /// 0,1,2 -> mate in 1,3,5 plies
    pub n: u8,
    pub pick: u32,
    pub mirror: bool,
    pub extra_depth: u8,
    pub seed: u64,
    pub hasher_seed: u64,
    pub workers: u8,
    pub sched: Option<u64>,
}

pub struct TbCompleteness;

impl Prop for TbCompleteness {
    type Case = TbMateCase;
    fn name(&self) -> &'static str {
        "tablebase_mates_found"
    }
    fn max_shrink_iters(&self) -> u32 {
        200
    }
    fn max_shrink_time_ms(&self) -> u32 {
        60_000
    }
    fn strategy(&self, _: &Ctx) -> BoxedStrategy<TbMateCase> {
        (
            prop_oneof![1 => Just(0u8), 3 => Just(1u8), 3 => Just(2u8)],
            any::<u32>(),
            any::<bool>(),
            0u8..=2,
            any::<u64>(),
            any::<u64>(),
            prop_oneof![10 => Just(0u8), 2 => Just(1u8), 1 => Just(2u8), 2 => Just(3u8), 1 => Just(4u8), 1 => Just(5u8)],
            any::<u64>(),
        )
            .prop_map(|(n, pick, mirror, extra_depth, seed, hasher_seed, w, sched)| {
                let workers = WORKERS[w as usize];
                TbMateCase { n, pick, mirror, extra_depth, seed, hasher_seed, workers, sched: if workers > 1 && sched % 8 != 0 { Some(sched) } else { None } }
            })
            .boxed()
    }
    fn test(&self, _: &Ctx, case: &TbMateCase, loc: &mut Local) -> Result<(), String> {
        let d = tbdata();
        let list = &d.wins[case.n as usize % 3];
        let n = [1u8, 3, 5][case.n as usize % 3];
        let base = &list[(case.pick as usize) % list.len()];
        let pos = if case.mirror { base.mirror() } else { base.clone() };
        let depth = n + case.extra_depth;
        let spec = SearchSpec { depth: Some(depth), seed: case.seed, workers: case.workers, sched_seed: case.sched, cancel_after: None };
        let (out, _) = search::run(&pos, &spec, search::new_artifact(case.hasher_seed, GEOM), usize::MAX);
        loc.eval();
        let what = format!("search of '{}' (mate in {} plies by tablebase; {:?})", pos.fen(), n, spec);
        if let Some(p) = &out.panic {
            return Err(format!("{} panicked: {}", what, p));
        }
        judge_claims_tb(&d.tb, &pos, &out, &what)?;
        let Some(last) = out.best.last() else {
            return Err(format!("{} reported nothing", what));
        };
        if last.eval < POS_INF {
            return Err(format!(
                "{}: the side to move can force mate within {} plies, depth limit {} >= {}, but the final evaluation is {} (line {})",
                what, n, depth, n, last.eval,
                last.line.iter().map(|m| m.lan()).collect::<Vec<_>>().join(" ")
            ));
        }
        let switches = out.sched.map(|s| s.1).unwrap_or(0);
        if n >= 3 || (case.workers >= 2 && switches >= 10) {
            loc.nontrivial(&(pos.fen4(), depth, case.workers, case.sched, case.seed));
        }
        loc.class(match n { 1 => "mate_in_1", 3 => "mate_in_3", _ => "mate_in_5" });
        loc.class(match case.workers { 1 => "workers_1", 2..=4 => "workers_2_4", 8 => "workers_8", _ => "workers_32" });
        loc.sample(|| json!({"fen": pos.fen(), "mate_in_plies": n, "depth": depth, "workers": case.workers, "eval": last.eval, "first_move": last.line[0].lan()}));
        Ok(())
    }
}

// ----------------------------------------------------------------- soundness (tablebase)

pub struct TbSoundness {
    pub max_depth: u8,
}

impl DynProp for TbSoundness {
    fn name(&self) -> &'static str {
        "tablebase_claims_sound"
    }
    fn run(&self, ctx: &Ctx, cases: u64) {
        // cases = stride over all tablebase indices
        let stride = cases.max(1);
        let total = Tb::total() as u64;
        let n = total / stride;
        let offset = ctx.seed % stride;
        let max_depth = self.max_depth as u64;
        let d = tbdata();
        par_range(ctx, "tablebase_claims_sound", n, |j, loc| {
            let i = (j * stride + offset) as usize;
            let Some(base) = Tb::position_at(i) else { return Ok(()) };
            if !base.has_legal_move() {
                return Ok(());
            }
            let mirror = (i / 7) % 2 == 1;
            let pos = if mirror { base.mirror() } else { base };
            let depth = 1 + ((i as u64 / 3) % max_depth) as u8;
            let seed = crate::runner::h64(&(ctx.seed, i as u64));
            let spec = SearchSpec { depth: Some(depth), seed, workers: 1, sched_seed: None, cancel_after: None };
            let (out, _) = search::run(&pos, &spec, search::new_artifact(seed ^ 1, GEOM), usize::MAX);
            loc.eval();
            let what = format!("search of '{}' ({:?})", pos.fen(), spec);
            if let Some(p) = &out.panic {
                return Err((json!({"fen": pos.fen(), "depth": depth, "seed": seed}), format!("{} panicked: {}", what, p)));
            }
            let value = d.tb.probe(&pos);
            match judge_claims_tb(&d.tb, &pos, &out, &what) {
                Ok(claims) => {
                    match value {
                        Some(Wdl::Draw) => {
                            loc.class("drawn_root");
                            if depth >= 3 {
                                loc.nontrivial(&(pos.fen4(), depth));
                            }
                        }
                        Some(Wdl::Win(n)) => {
                            loc.class("won_root");
                            // completeness on the enumerated positions as well
                            if n as u8 <= depth {
                                let last = out.best.last().map(|b| b.eval).unwrap_or(i32::MIN);
                                if last < POS_INF {
                                    return Err((
                                        json!({"fen": pos.fen(), "depth": depth, "seed": seed}),
                                        format!("{}: mate in {} plies by tablebase, depth limit {}, but the final evaluation is {}", what, n, depth, last),
                                    ));
                                }
                                loc.class("won_root_within_depth");
                                loc.nontrivial(&(pos.fen4(), depth));
                            }
                        }
                        Some(Wdl::Loss(_)) => loc.class("lost_root"),
                        None => {}
                    }
                    if claims > 0 {
                        loc.class("mate_claimed");
                    }
                    if j % 50_000 == 0 {
                        loc.sample(|| json!({"fen": pos.fen(), "depth": depth, "tablebase": format!("{:?}", value), "final_eval": out.best.last().map(|b| b.eval)}));
                    }
                    Ok(())
                }
                Err(m) => Err((json!({"fen": pos.fen(), "depth": depth, "seed": seed}), m)),
            }
        });
        if stride == 1 {
            ctx.mark_exhaustive("every legal position of K v K, KQK, KRK, KBK, KNK, KPK (one depth and mirror choice per position)");
        }
    }
    fn replay(&self, _: &Ctx, case: &Value) -> Result<(), String> {
        let pos = Pos::from_fen(case["fen"].as_str().ok_or("no fen")?).ok_or("bad fen")?;
        let depth = case["depth"].as_u64().unwrap_or(1) as u8;
        let seed = case["seed"].as_u64().unwrap_or(0);
        let d = tbdata();
        let spec = SearchSpec { depth: Some(depth), seed, workers: 1, sched_seed: None, cancel_after: None };
        let (out, _) = search::run(&pos, &spec, search::new_artifact(seed ^ 1, GEOM), usize::MAX);
        let what = format!("search of '{}' ({:?})", pos.fen(), spec);
        if let Some(p) = &out.panic {
            return Err(format!("{} panicked: {}", what, p));
        }
        judge_claims_tb(&d.tb, &pos, &out, &what)?;
        if let Some(Wdl::Win(n)) = d.tb.probe(&pos) {
            if n as u8 <= depth && out.best.last().map(|b| b.eval).unwrap_or(i32::MIN) < POS_INF {
                return Err(format!("{}: mate in {} plies by tablebase is not found", what, n));
            }
        }
        Ok(())
    }
}

// ------------------------------------------------------------ solver-decided positions

#[derive(Debug, Clone, Serialize, Deserialize)]
pub struct SolverCase {
    pub source: Source,
    pub extra_depth: u8,
    pub seed: u64,
    pub hasher_seed: u64,
    pub workers: u8,
    pub sched: Option<u64>,
}

pub struct SolverMates;

impl Prop for SolverMates {
    type Case = SolverCase;
    fn name(&self) -> &'static str {
        "solver_mates_found"
    }
    fn max_shrink_iters(&self) -> u32 {
        100
    }
    fn max_shrink_time_ms(&self) -> u32 {
        60_000
    }
    fn strategy(&self, _: &Ctx) -> BoxedStrategy<SolverCase> {
        (
            sparse_source(),
            0u8..=2,
            any::<u64>(),
            any::<u64>(),
            prop_oneof![10 => Just(0u8), 2 => Just(1u8), 2 => Just(3u8)],
            any::<u64>(),
        )
            .prop_map(|(source, extra_depth, seed, hasher_seed, w, sched)| {
                let workers = WORKERS[w as usize];
                SolverCase { source, extra_depth, seed, hasher_seed, workers, sched: if workers > 1 && sched % 8 != 0 { Some(sched) } else { None } }
            })
            .boxed()
    }
    fn test(&self, _: &Ctx, case: &SolverCase, loc: &mut Local) -> Result<(), String> {
        let Some(pos) = source_pos(&case.source) else { return Ok(()) };
        if !pos.has_legal_move() {
            return Ok(());
        }
        // exact mate distance up to 5 plies (3 on busy boards), by exhaustive AND/OR search
        let max_n = if pos.men() <= 7 { 5 } else { 3 };
        let dist = solver::mate_distance(&pos, max_n, 400_000);
        loc.eval();
        let n = match dist {
            None => {
                loc.class("solver_undecided");
                return Ok(());
            }
            Some(None) => {
                loc.class("no_short_mate");
                // soundness only: a mate claim is checked by bounded proof, never refuted
                let spec = SearchSpec { depth: Some(2), seed: case.seed, workers: 1, sched_seed: None, cancel_after: None };
                let (out, _) = search::run(&pos, &spec, search::new_artifact(case.hasher_seed, GEOM), usize::MAX);
                if let Some(p) = &out.panic {
                    return Err(format!("search of '{}' panicked: {}", pos.fen(), p));
                }
                if let Some(b) = out.best.iter().find(|b| b.eval >= POS_INF) {
                    search::check_line(&pos, &b.line)?;
                    let mut s = Solver::new(300_000);
                    match s.lost_within(&pos.apply(&b.line[0]), 8) {
                        Some(true) => loc.class("deep_mate_claim_proved"),
                        _ => loc.class("deep_mate_claim_undecided"),
                    }
                }
                return Ok(());
            }
            Some(Some(n)) => n,
        };
        let depth = (n as u8 + case.extra_depth).min(7);
        let workers = if pos.men() > 10 { 1 } else { case.workers };
        let spec = SearchSpec { depth: Some(depth), seed: case.seed, workers, sched_seed: if workers > 1 { case.sched } else { None }, cancel_after: None };
        let (out, _) = search::run(&pos, &spec, search::new_artifact(case.hasher_seed, GEOM), usize::MAX);
        let what = format!("search of '{}' (forced mate in {} plies by exhaustive solver; {:?})", pos.fen(), n, spec);
        if let Some(p) = &out.panic {
            return Err(format!("{} panicked: {}", what, p));
        }
        for b in out.best.iter() {
            search::check_line(&pos, &b.line).map_err(|e| format!("{}: {}", what, e))?;
        }
        let Some(last) = out.best.last() else {
            return Err(format!("{} reported nothing", what));
        };
        if last.eval < POS_INF {
            return Err(format!(
                "{}: depth limit {} >= {} but the final evaluation is {} (line {})",
                what, depth, n, last.eval, last.line.iter().map(|m| m.lan()).collect::<Vec<_>>().join(" ")
            ));
        }
        // the first move keeps the mate: proved, or undecided within the budget (never refuted)
        let succ = pos.apply(&last.line[0]);
        let mut proved = false;
        let mut b = n.saturating_sub(1);
        while b <= n + 3 {
            let mut s = Solver::new(400_000);
            match s.lost_within(&succ, b) {
                Some(true) => {
                    proved = true;
                    break;
                }
                Some(false) => {}
                None => break,
            }
            b += 2;
        }
        if !proved && Solver::new(400_000).mates_within(&succ, 5) == Some(true) {
            return Err(format!("{}: the final evaluation {} claims a forced mate, but after the reported first move {} it is the opponent who forces mate within 5 plies", what, last.eval, last.line[0].lan()));
        }
        loc.class(if proved { "first_move_proved_to_keep_mate" } else { "first_move_undecided" });
        loc.class(match n { 1 => "mate_in_1", 3 => "mate_in_3", _ => "mate_in_5" });
        if n >= 3 {
            loc.nontrivial(&(pos.fen4(), depth, workers, case.seed));
        }
        loc.sample(|| json!({"fen": pos.fen(), "mate_in_plies": n, "depth": depth, "eval": last.eval, "first_move": last.line[0].lan(), "first_move_proved": proved}));
        Ok(())
    }
}


// ------------------------------------------- mates whose only key move is a special move

/// Positions (White to move; mirrored for Black at use) with a mate in one ply where EVERY mating
/// move is of one special kind: an en-passant capture (0), an under-promotion (1) or castling (2).
/// A search that loses such a move anywhere - move generation shortcuts, evasion filters, move
/// ordering that drops a duplicate - cannot find the mate. Mined by seeded construction: a pure
/// function of the trial index.
pub struct SpecialPool {
    pub list: Vec<(Pos, u8, bool)>,
    pub trials: u64,
}

fn special_trial(i: u64, three: bool) -> Option<(Pos, u8, bool)> {
    use crate::oracle::rules::{Col, Kind};
    let mut x = i.wrapping_mul(0x9E3779B97F4A7C15) ^ 0x5eed_c06;
    let mut r = |n: usize| (crate::runner::splitmix(&mut x) % n as u64) as usize;
    // castling mates are common, the other two kinds are rare: 5 / 2 / 1 out of 8 trials
    // kind 3: the side to move is in check and every key move is a move of a piece other than the king
    // (capture of the checker or interposition that mates)
    let kind = if three { [0u8, 1, 1, 1, 3, 3][(i % 6) as usize] } else { [0u8, 0, 0, 0, 0, 1, 1, 2, 3, 3, 3, 3][(i % 12) as usize] };
    let mut p = Pos::empty(Col::W);
    // the defender's king on the rim (mates in one are found there)
    let rim: Vec<usize> = (0..64).filter(|s| s / 8 == 0 || s / 8 == 7 || s % 8 == 0 || s % 8 == 7).collect();
    let bk = if r(4) == 0 { r(64) } else { rim[r(rim.len())] };
    p.b[bk] = Some((Col::B, Kind::K));
    let wk = if kind == 2 { 4 } else { r(64) };
    if p.b[wk].is_some() {
        return None;
    }
    p.b[wk] = Some((Col::W, Kind::K));
    let put = |p: &mut Pos, s: usize, c: Col, k: Kind| -> bool {
        if p.b[s].is_some() || (k == Kind::P && (s / 8 == 0 || s / 8 == 7)) {
            return false;
        }
        p.b[s] = Some((c, k));
        true
    };
    match kind {
        0 => {
            // Black has just played f7-f5 (any file): pawn on rank 5, target on rank 6, a white pawn beside it
            let f = r(8);
            let side = if f == 0 { 1 } else if f == 7 { 6 } else if r(2) == 0 { f - 1 } else { f + 1 };
            if p.b[32 + f].is_some() || p.b[40 + f].is_some() || p.b[48 + f].is_some() || p.b[32 + side].is_some() {
                return None;
            }
            p.b[32 + f] = Some((Col::B, Kind::P));
            p.b[32 + side] = Some((Col::W, Kind::P));
            p.ep = Some(40 + f);
        }
        1 => {
            let f = r(8);
            if p.b[48 + f].is_some() {
                return None;
            }
            p.b[48 + f] = Some((Col::W, Kind::P));
        }
        3 => {
            // a black piece aimed at the white king, and often black pawns next to that king (also on
            // the squares diagonally behind it, from where they do not attack it)
            let k = [Kind::Q, Kind::R, Kind::B, Kind::N][r(4)];
            put(&mut p, r(64), Col::B, k);
            for _ in 0..r(3) {
                let d = crate::oracle::rules::KING_D[r(8)];
                if let Some(sq) = crate::oracle::rules::off(wk, d) {
                    put(&mut p, sq, Col::B, Kind::P);
                }
            }
        }
        _ => {
            let rook = if r(2) == 0 { 7 } else { 0 };
            if p.b[rook].is_some() {
                return None;
            }
            p.b[rook] = Some((Col::W, Kind::R));
            p.cas[if rook == 7 { 0 } else { 1 }] = true;
        }
    }
    let kinds = [Kind::Q, Kind::R, Kind::B, Kind::N, Kind::P, Kind::R, Kind::Q];
    for _ in 0..r(4) {
        let k = kinds[r(kinds.len())];
        put(&mut p, r(64), Col::W, k);
    }
    for _ in 0..r(5) {
        let k = [Kind::P, Kind::P, Kind::N, Kind::B, Kind::R, Kind::Q][r(6)];
        // the defender's own men mostly next to his king (they take away flight squares)
        let s = if r(3) > 0 { let d = crate::oracle::rules::KING_D[r(8)]; crate::oracle::rules::off(bk, d).unwrap_or(r(64)) } else { r(64) };
        put(&mut p, s, Col::B, k);
    }
    if kind == 0 {
        // squares the double step passed over must still be empty, the target too
        let t = p.ep.unwrap();
        if p.b[t].is_some() || p.b[t + 8].is_some() {
            return None;
        }
    }
    if !p.is_legal_position() {
        return None;
    }
    if kind == 3 && !p.in_check(Col::W) {
        return None;
    }
    let legal = p.legal();
    let mating: Vec<&crate::oracle::rules::Mv> = legal.iter().filter(|(_, n)| !n.has_legal_move() && n.in_check(n.stm)).map(|x| &x.0).collect();
    if three {
        // mate in exactly three plies, every key move special
        if !mating.is_empty() || !special3_ok(&p, kind) {
            return None;
        }
        let in_check = p.in_check(Col::W);
        return Some((p, kind, in_check));
    }
    if mating.is_empty() {
        return None;
    }
    if !mating.iter().all(|m| is_special(m, kind)) {
        return None;
    }
    let in_check = p.in_check(Col::W);
    Some((p, kind, in_check))
}

fn is_special(m: &crate::oracle::rules::Mv, kind: u8) -> bool {
    use crate::oracle::rules::Kind;
    match kind {
        0 => m.ep,
        1 => matches!(m.promo, Some(Kind::N) | Some(Kind::B) | Some(Kind::R)),
        3 => m.kind != Kind::K,
        _ => m.castle.is_some(),
    }
}

/// No mate in one; at least one special move after which the opponent is mated within two plies;
/// no other move with that effect (all decided exhaustively).
fn special3_ok(p: &Pos, kind: u8) -> bool {
    let legal = p.legal();
    if legal.iter().any(|(_, n)| !n.has_legal_move() && n.in_check(n.stm)) {
        return false;
    }
    let mut key = false;
    // the few special moves first: most positions fail here
    for (m, n) in legal.iter().filter(|x| is_special(&x.0, kind)) {
        let _ = m;
        if Solver::new(200_000).lost_within(n, 2) == Some(true) {
            key = true;
        }
    }
    if !key {
        return false;
    }
    for (_, n) in legal.iter().filter(|x| !is_special(&x.0, kind)) {
        if Solver::new(200_000).lost_within(n, 2) != Some(false) {
            return false;
        }
    }
    true
}

pub fn special_pool(ctx: &Ctx) -> &'static SpecialPool {
    static P: OnceLock<SpecialPool> = OnceLock::new();
    P.get_or_init(|| {
        let trials: u64 = 8_000_000;
        let threads = ctx.threads.max(1) as u64;
        let found: Mutex<Vec<(u64, Pos, u8, bool)>> = Mutex::new(vec![]);
        std::thread::scope(|sc| {
            for t in 0..threads {
                let found = &found;
                sc.spawn(move || {
                    let mut mine = vec![];
                    let mut i = t;
                    while i < trials {
                        if let Some((p, k, c)) = special_trial(i, false) {
                            mine.push((i, p, k, c));
                        }
                        i += threads;
                    }
                    found.lock().unwrap().extend(mine);
                });
            }
        });
        let mut v = found.into_inner().unwrap();
        v.sort_by_key(|x| x.0);
        let mut seen = std::collections::HashSet::new();
        let mut list = vec![];
        for (_, p, k, c) in v {
            if seen.insert(p.fen4()) {
                list.push((p, k, c));
            }
        }
        SpecialPool { list, trials }
    })
}

/// Mates in exactly three plies whose every key move is an en-passant capture or an
/// under-promotion, mined like the one-ply pool (a pure function of the trial index).
pub fn special3_pool(ctx: &Ctx) -> &'static Vec<(Pos, u8)> {
    static P: OnceLock<Vec<(Pos, u8)>> = OnceLock::new();
    P.get_or_init(|| {
        let trials: u64 = 2_400_000;
        let found: Mutex<Vec<(u64, Pos, u8)>> = Mutex::new(vec![]);
        let threads = ctx.threads.max(1) as u64;
        std::thread::scope(|sc| {
            for t in 0..threads {
                let found = &found;
                sc.spawn(move || {
                    let mut mine = vec![];
                    let mut i = t;
                    while i < trials {
                        if let Some((p, k, _)) = special_trial(i.wrapping_add(0x3333_0000_0000), true) {
                            mine.push((i, p, k));
                        }
                        i += threads;
                    }
                    found.lock().unwrap().extend(mine);
                });
            }
        });
        let mut v = found.into_inner().unwrap();
        v.sort_by_key(|x| x.0);
        let mut seen = std::collections::HashSet::new();
        v.into_iter().filter(|x| seen.insert(x.1.fen4())).map(|x| (x.1, x.2)).collect()
    })
}

pub struct SpecialKeyMates3;

impl DynProp for SpecialKeyMates3 {
    fn name(&self) -> &'static str {
        "special_key_mates_in_3"
    }
    fn run(&self, ctx: &Ctx, cases: u64) {
        let pool = special3_pool(ctx);
        ctx.extra("special3_pool", json!({"trials": 2_400_000, "positions": pool.len(), "en_passant": pool.iter().filter(|x| x.1 == 0).count(), "under_promotion": pool.iter().filter(|x| x.1 == 1).count(), "out_of_check_by_another_piece": pool.iter().filter(|x| x.1 == 3).count()}));
        let n = (pool.len() as u64).min(cases);
        // per position: (mirrored or not) x depth 3..5 x {1 worker, 2 scheduled workers}, plus one run
        // through the public entry point at depth 3 (it allocates the real 1 GiB memory)
        // (the public runs come one after the other: 16 of them at once would hold 16 GiB)
        let public_runs = n.min(if ctx.tier == crate::runner::Tier::Quick { 12 } else { 200 });
        let seq = std::sync::atomic::AtomicBool::new(false);
        let one = |i: u64, loc: &mut Local| -> Result<(), (Value, String)> {
            let (p0, kind) = &pool[(i / 13) as usize];
            let v = i % 13;
            if (v == 12) != seq.load(std::sync::atomic::Ordering::Relaxed) {
                return Ok(());
            }
            // modes: 0 = one worker, 1 = two scheduled workers, 3 = eight scheduled workers (depth 3-4), 2 = public entry point
            let (mirrored, depth, mode) = if v == 12 {
                (false, 3u8, 2u64)
            } else {
                let m = (v / 3) % 2;
                let depth = (v % 3) as u8 + 3;
                // every other position trades its two-worker runs for eight-worker runs
                let mode = if m == 1 && (i / 13) % 2 == 1 { 3 } else { m };
                (v >= 6, if mode == 3 { depth.min(4) } else { depth }, mode)
            };
            let pos = if mirrored { p0.mirror() } else { p0.clone() };
            let seed = crate::runner::h64(&(i, ctx.seed, "s3"));
            let kname = ["an en-passant capture", "an under-promotion", "castling", "a non-king move out of check"][*kind as usize];
            let case = json!({"fen": pos.fen(), "depth": depth, "seed": seed, "mode": mode});
            let (last_eval, first, what) = if mode == 2 {
                // the public entry point: the engine's own worker counts (one below iteration 3)
                let lines = super::c19::transcript_public(&pos, seed, depth as usize).map_err(|e| (case.clone(), e))?;
                let best: Vec<&String> = lines.iter().filter(|l| l.starts_with("best ")).collect();
                let what = format!("Searcher::analyze of '{}' (mate in 3 plies, only by {}; depth {}, seed {})", pos.fen(), kname, depth, seed);
                let Some(l) = best.last() else { return Err((case, format!("{} reported nothing", what))) };
                let mut it = l.split(' ');
                let _ = it.next();
                let ev: i32 = it.next().and_then(|x| x.parse().ok()).unwrap_or(i32::MIN);
                (ev, it.next().unwrap_or("").to_string(), what)
            } else {
                let workers = match mode { 0 => 1, 3 => 8, _ => 2 };
                let spec = SearchSpec { depth: Some(depth), seed, workers, sched_seed: if workers > 1 { Some(seed ^ 5) } else { None }, cancel_after: None };
                let (out, _) = search::run(&pos, &spec, search::new_artifact(seed ^ 7, GEOM), usize::MAX);
                let what = format!("search of '{}' (mate in 3 plies, only by {}; {:?})", pos.fen(), kname, spec);
                if let Some(pm) = &out.panic {
                    return Err((case, format!("{} panicked: {}", what, pm)));
                }
                for b in out.best.iter() {
                    search::check_line(&pos, &b.line).map_err(|e| (case.clone(), format!("{}: {}", what, e)))?;
                }
                let Some(last) = out.best.last() else { return Err((case, format!("{} reported nothing", what))) };
                (last.eval, last.line[0].lan(), what)
            };
            loc.eval();
            if last_eval < POS_INF {
                return Err((case, format!("{}: depth limit {} >= 3 but the final evaluation is {} (first move {})", what, depth, last_eval, first)));
            }
            // the first move keeps the mate: the reply position is lost within 2 plies (the key), or
            // within 6 by the solver (a slower mate the deeper search preferred); otherwise undecided
            let Some((_, succ)) = pos.legal().into_iter().find(|(m, _)| m.lan() == first) else {
                return Err((case, format!("{}: first move '{}' is not legal", what, first)));
            };
            let kept = Solver::new(400_000).lost_within(&succ, 6);
            // refutation that needs no horizon argument: if, after the reported first move, the OPPONENT
            // can force mate, the reported "forced mate" does not exist
            if kept != Some(true) && Solver::new(400_000).mates_within(&succ, 5) == Some(true) {
                return Err((case, format!("{}: the final evaluation {} claims a forced mate, but after the reported first move {} it is the opponent who forces mate within 5 plies", what, last_eval, first)));
            }
            if kept == Some(false) && depth <= 5 {
                // no mate within 7 plies after that move although the search (depth <= 5, fresh memory) claims one:
                // only extensions could have seen deeper - counted, not judged
                loc.class("special3:first_move_not_mating_within_7_plies_undecided");
            } else {
                loc.class(if kept == Some(true) { "special3:first_move_proved_to_keep_mate" } else { "special3:first_move_undecided" });
            }
            loc.class(["special3:key_en_passant", "special3:key_under_promotion", "special3:key_castling", "special3:key_out_of_check_by_another_piece"][*kind as usize]);
            loc.class(["special3:one_worker", "special3:two_workers_scheduled", "special3:public_entry_point", "special3:eight_workers_scheduled"][mode as usize]);
            loc.nontrivial(&(pos.fen4(), depth, mode));
            if i % 53 == 0 {
                loc.sample(|| json!({"fen": pos.fen(), "key": kname, "depth": depth, "eval": last_eval, "first_move": first, "mode": mode}));
            }
            Ok(())
        };
        par_range(ctx, "special_key_mates_in_3", n * 13, &one);
        seq.store(true, std::sync::atomic::Ordering::Relaxed);
        let mut loc = Local::new();
        for j in 0..public_runs {
            if ctx.violations() > 0 {
                break;
            }
            if let Err((case, msg)) = one(j * 13 + 12, &mut loc) {
                ctx.violation("special_key_mates_in_3", case, msg);
            }
        }
        ctx.merge("special_key_mates_in_3", loc);
    }
    fn replay(&self, _: &Ctx, case: &Value) -> Result<(), String> {
        let pos = Pos::from_fen(case["fen"].as_str().ok_or("no fen")?).ok_or("bad fen")?;
        let depth = case["depth"].as_u64().unwrap_or(3) as u8;
        let seed = case["seed"].as_u64().unwrap_or(0);
        if Solver::new(2_000_000).mates_within(&pos, 3) != Some(true) {
            return Err("the replay position has no forced mate within 3 plies".into());
        }
        let workers = if case["mode"].as_u64() == Some(1) { 2 } else { 1 };
        let spec = SearchSpec { depth: Some(depth), seed, workers, sched_seed: if workers > 1 { Some(seed ^ 5) } else { None }, cancel_after: None };
        let (out, _) = search::run(&pos, &spec, search::new_artifact(seed ^ 7, GEOM), usize::MAX);
        match out.best.last() {
            Some(b) if b.eval >= POS_INF => Ok(()),
            Some(b) => Err(format!("search of '{}' ({:?}): mate in 3 plies exists, final evaluation {}", pos.fen(), spec, b.eval)),
            None => Err(format!("search of '{}' reported nothing", pos.fen())),
        }
    }
}

pub struct SpecialKeyMates;

impl DynProp for SpecialKeyMates {
    fn name(&self) -> &'static str {
        "special_key_mates"
    }
    fn run(&self, ctx: &Ctx, cases: u64) {
        let pool = special_pool(ctx);
        let per_kind = |k: u8| pool.list.iter().filter(|x| x.1 == k).count();
        ctx.extra("special_pool", json!({"trials": pool.trials, "en_passant": per_kind(0), "under_promotion": per_kind(1), "castling": per_kind(2), "out_of_check_by_another_piece": per_kind(3),
            "side_to_move_in_check": pool.list.iter().filter(|x| x.2).count()}));
        // take the kinds in turn so that the rare ones are not crowded out
        let mut order: Vec<usize> = vec![];
        let by_kind: Vec<Vec<usize>> = (0..4u8).map(|k| pool.list.iter().enumerate().filter(|(_, x)| x.1 == k).map(|x| x.0).collect()).collect();
        let longest = by_kind.iter().map(|v| v.len()).max().unwrap_or(0);
        for j in 0..longest {
            for v in by_kind.iter() {
                if j < v.len() {
                    order.push(v[j]);
                }
            }
        }
        let n = (order.len() as u64).min(cases);
        par_range(ctx, "special_key_mates", n * 6, |i, loc| {
            let (p0, kind, in_check) = &pool.list[order[(i / 6) as usize]];
            let mirrored = (i % 6) >= 3;
            let depth = (i % 3) as u8 + 1;
            let pos = if mirrored { p0.mirror() } else { p0.clone() };
            let seed = crate::runner::h64(&(i, ctx.seed));
            let spec = SearchSpec { depth: Some(depth), seed, workers: 1, sched_seed: None, cancel_after: None };
            let (out, _) = search::run(&pos, &spec, search::new_artifact(seed ^ 7, GEOM), usize::MAX);
            loc.eval();
            let kname = ["an en-passant capture", "an under-promotion", "castling", "a non-king move out of check"][*kind as usize];
            let what = format!("search of '{}' (mate in 1 ply, only by {}; {:?})", pos.fen(), kname, spec);
            let case = json!({"fen": pos.fen(), "depth": depth, "seed": seed});
            if let Some(pm) = &out.panic {
                return Err((case, format!("{} panicked: {}", what, pm)));
            }
            for b in out.best.iter() {
                search::check_line(&pos, &b.line).map_err(|e| (case.clone(), format!("{}: {}", what, e)))?;
            }
            let Some(last) = out.best.last() else { return Err((case, format!("{} reported nothing", what))) };
            if last.eval < POS_INF {
                return Err((case, format!("{}: depth limit {} >= 1 but the final evaluation is {} (line {})", what, depth, last.eval, last.line.iter().map(|m| m.lan()).collect::<Vec<_>>().join(" "))));
            }
            // the first move keeps the mate: it mates at once, or the solver proves the reply position lost; otherwise undecided
            let succ = pos.apply(&last.line[0]);
            let mut s = Solver::new(300_000);
            let kept = if !succ.has_legal_move() && succ.in_check(succ.stm) { Some(true) } else { s.lost_within(&succ, 6) };
            loc.class(match kept { Some(true) => "special:first_move_proved_to_keep_mate", Some(false) => "special:first_move_not_mating_within_7_plies_undecided", None => "special:first_move_undecided" });
            loc.class(["special:key_en_passant", "special:key_under_promotion", "special:key_castling", "special:key_out_of_check_by_another_piece"][*kind as usize]);
            if *in_check {
                loc.class("special:side_to_move_in_check");
            }
            loc.nontrivial(&(pos.fen4(), depth));
            if i % 97 == 0 {
                loc.sample(|| json!({"fen": pos.fen(), "key": kname, "depth": depth, "eval": last.eval, "first_move": last.line[0].lan()}));
            }
            Ok(())
        });
    }
    fn replay(&self, _: &Ctx, case: &Value) -> Result<(), String> {
        let pos = Pos::from_fen(case["fen"].as_str().ok_or("no fen")?).ok_or("bad fen")?;
        let depth = case["depth"].as_u64().unwrap_or(1) as u8;
        let seed = case["seed"].as_u64().unwrap_or(0);
        let spec = SearchSpec { depth: Some(depth), seed, workers: 1, sched_seed: None, cancel_after: None };
        let (out, _) = search::run(&pos, &spec, search::new_artifact(seed ^ 7, GEOM), usize::MAX);
        if let Some(pm) = &out.panic {
            return Err(format!("search of '{}' panicked: {}", pos.fen(), pm));
        }
        let mates_in_one = pos.legal().iter().any(|(_, n)| !n.has_legal_move() && n.in_check(n.stm));
        if !mates_in_one {
            return Err("the replay position has no mate in one".into());
        }
        match out.best.last() {
            Some(b) if b.eval >= POS_INF => Ok(()),
            Some(b) => Err(format!("search of '{}' ({:?}): mate in 1 ply exists, depth limit {}, final evaluation {}", pos.fen(), spec, depth, b.eval)),
            None => Err(format!("search of '{}' reported nothing", pos.fen())),
        }
    }
}

// ------------------------------------------------------- exact 4-man families (thorough)

/// K + two white pieces v K: exact soundness and completeness on a stride sample.
pub struct Tb4Exact {
    pub families: &'static [(crate::oracle::rules::Kind, crate::oracle::rules::Kind)],
}

fn judge_tb4(tb4: &crate::oracle::tb4::Tb4, pos: &Pos, depth: u8, seed: u64) -> Result<(Option<Wdl>, usize), String> {
    let d = tbdata();
    let value = |p: &Pos| -> Option<Wdl> { if p.men() == 4 { tb4.probe(p) } else { d.tb.probe(p) } };
    let spec = SearchSpec { depth: Some(depth), seed, workers: 1, sched_seed: None, cancel_after: None };
    let (out, _) = search::run(pos, &spec, search::new_artifact(seed ^ 1, GEOM), usize::MAX);
    let what = format!("search of '{}' ({:?})", pos.fen(), spec);
    if let Some(p) = &out.panic {
        return Err(format!("{} panicked: {}", what, p));
    }
    let root = value(pos);
    let mut claims = 0;
    for b in out.best.iter() {
        search::check_line(pos, &b.line).map_err(|e| format!("{}: {}", what, e))?;
        if b.eval >= POS_INF {
            claims += 1;
            if !matches!(root, Some(Wdl::Win(_))) {
                return Err(format!("{}: reported the winning terminal evaluation {} but the exact value of the root is {:?}", what, b.eval, root));
            }
            let v = value(&pos.apply(&b.line[0]));
            if !matches!(v, Some(Wdl::Loss(_))) {
                return Err(format!("{}: reported a forced mate (evaluation {}) with first move {}, after which the opponent's exact value is {:?}, not a loss", what, b.eval, b.line[0].lan(), v));
            }
        }
    }
    if let Some(Wdl::Win(n)) = root {
        if n as u8 <= depth {
            let last = out.best.last().map(|b| b.eval).unwrap_or(i32::MIN);
            if last < POS_INF {
                return Err(format!("{}: the side to move mates in {} plies (exact), depth limit {}, but the final evaluation is {}", what, n, depth, last));
            }
        }
    }
    Ok((root, claims))
}

impl DynProp for Tb4Exact {
    fn name(&self) -> &'static str {
        "four_man_exact"
    }
    fn run(&self, ctx: &Ctx, cases: u64) {
        if cases == 0 {
            return;
        }
        let stride = cases.max(1);
        for (k1, k2) in self.families.iter() {
            let t0 = std::time::Instant::now();
            let tb4 = crate::oracle::tb4::Tb4::build(*k1, *k2, &tbdata().tb, ctx.threads);
            let build_s = t0.elapsed().as_secs_f64();
            // self test of the table against the exhaustive solver on a sample (exit 2 on mismatch)
            let mut x = ctx.seed ^ 0xabcdef;
            let mut checked = 0;
            while checked < 1500 {
                let i = (crate::runner::splitmix(&mut x) % crate::oracle::tb4::SIZE as u64) as usize;
                let Some(p) = tb4.pos_of(i) else { continue };
                if p.stm != crate::oracle::rules::Col::W {
                    continue;
                }
                checked += 1;
                let tbv = tb4.probe(&p);
                let sv = solver::mate_distance(&p, 5, 2_000_000);
                let agree = match (tbv, sv) {
                    (Some(Wdl::Win(n)), Some(Some(m))) => n as u32 == m,
                    (Some(Wdl::Win(n)), Some(None)) => n > 5,
                    (_, Some(Some(_))) => false,
                    _ => true,
                };
                if !agree {
                    eprintln!("HARNESS: 4-man table K{}{}K disagrees with the solver on '{}': table {:?}, solver {:?}", k1.letter(), k2.letter(), p.fen(), tbv, sv);
                    std::process::exit(2);
                }
            }
            let n = crate::oracle::tb4::SIZE as u64 / stride;
            let offset = ctx.seed % stride;
            let fam = format!("K{}{}K", k1.letter(), k2.letter());
            par_range(ctx, "four_man_exact", n, |j, loc| {
                let i = (j * stride + offset) as usize;
                let Some(base) = tb4.pos_of(i) else { return Ok(()) };
                if !base.has_legal_move() {
                    return Ok(());
                }
                let pos = if (i / 7) % 2 == 1 { base.mirror() } else { base };
                let depth = 1 + ((i / 3) % 5) as u8;
                let seed = crate::runner::h64(&(ctx.seed, i as u64, fam.as_str()));
                loc.eval();
                match judge_tb4(&tb4, &pos, depth, seed) {
                    Ok((root, claims)) => {
                        if let Some(Wdl::Win(w)) = root {
                            if w as u8 <= depth {
                                loc.class("won_root_within_depth");
                                if w >= 3 {
                                    loc.nontrivial(&(pos.fen4(), depth));
                                }
                            }
                        }
                        if claims > 0 {
                            loc.class("mate_claimed");
                        }
                        if j % 20_000 == 0 {
                            loc.sample(|| json!({"family": fam, "fen": pos.fen(), "depth": depth, "exact": format!("{:?}", root)}));
                        }
                        Ok(())
                    }
                    Err(m) => Err((json!({"family": [k1.letter().to_string(), k2.letter().to_string()], "fen": pos.fen(), "depth": depth, "seed": seed}), m)),
                }
            });
            ctx.part(json!({"check": "four_man_exact", "family": fam, "table_build_s": build_s, "longest_win_plies": tb4.max_win, "stride": stride}));
            if ctx.violations() > 0 {
                break;
            }
        }
    }
    fn replay(&self, ctx: &Ctx, case: &Value) -> Result<(), String> {
        use crate::oracle::rules::Kind;
        let kind = |s: &str| match s { "Q" => Kind::Q, "R" => Kind::R, "B" => Kind::B, _ => Kind::N };
        let f = case["family"].as_array().ok_or("no family")?;
        let (k1, k2) = (kind(f[0].as_str().unwrap_or("Q")), kind(f[1].as_str().unwrap_or("R")));
        let pos = Pos::from_fen(case["fen"].as_str().ok_or("no fen")?).ok_or("bad fen")?;
        let tb4 = crate::oracle::tb4::Tb4::build(k1, k2, &tbdata().tb, ctx.threads);
        judge_tb4(&tb4, &pos, case["depth"].as_u64().unwrap_or(1) as u8, case["seed"].as_u64().unwrap_or(0)).map(|_| ())
    }
}

pub fn plan(ctx: &Ctx) -> Plan {
    let t = ctx.tier;
    let _ = pick_index(0, 1);
    Plan {
        props: vec![
            (Box::new(TbCompleteness), t.pick(8_000, 300_000)),
            (Box::new(TbSoundness { max_depth: 5 }), t.pick(61, 5)),
            (Box::new(SolverMates), t.pick(30_000, 1_000_000)),
            (Box::new(SpecialKeyMates), t.pick(1_500, 1_000_000)),
            (Box::new(SpecialKeyMates3), t.pick(400, 1_000_000)),
            (Box::new(Tb4Exact { families: &[(crate::oracle::rules::Kind::R, crate::oracle::rules::Kind::R), (crate::oracle::rules::Kind::Q, crate::oracle::rules::Kind::R), (crate::oracle::rules::Kind::Q, crate::oracle::rules::Kind::N)] }), t.pick(0, 401)),
        ],
        rule: "oracle = exact retrograde tablebases for K v K, KQK, KRK, KBK, KNK, KPK built at start-up from the rules \
               oracle (self-checked against the published maxima 19/31/55 plies) and an exhaustive AND/OR mate solver. \
               Completeness: tablebase positions where the side to move mates in exactly 1/3/5 plies (also colour-mirrored), \
               fresh 8x1024 memory, depth n..n+2, seeds, 1-32 workers under the baton scheduler: the final report must \
               have evaluation >= POS_INF and its first move must leave the opponent tablebase-lost. Soundness: a stride \
               sample (quick) / every 5th (thorough) of ALL tablebase positions incl. drawn ones, depth 1-5: any report \
               with evaluation >= POS_INF needs a tablebase win and a preserving first move; won roots within the depth \
               must be found. Generated sparse positions: exact mate distance <= 5 (<= 3 with more than 7 men) by the \
               solver, then the same completeness rule; the first move is proved to keep the mate by bounded proof search \
               or counted as undecided - never refuted. Special keys (special_key_mates): 8 M seeded \
               constructions are filtered for positions with a mate in one ply in which every mating move is an en-passant \
               capture, an under-promotion, castling, or - the side to move being in check - a move of another piece than the king (a few hundred; some with the side to move in check); each is searched \
               (also colour-mirrored) at depth 1-3 from fresh memory and must end with evaluation >= POS_INF. \
               Thorough only: exact tables for K + two white pieces v K \
               (KRRK, KQRK, KQNK; 33 M positions each, self-checked against the solver on 1500 samples each run) give \
               exact soundness and completeness on a 1/401 stride sample of those families (captures lead into the \
               3-man tables). Non-trivial = distinct cases with mate distance >= 3, or >= 2 \
               workers with >= 10 baton switches, or drawn roots at depth >= 3.",
        assumptions: &[
            "the mate distance encoded in the score is never used as a bound (entries grafted from other depths make it shorter than the real distance)",
            "outside the tablebase families 'the first move keeps the mate' is proved or left undecided, never refuted",
            "interleavings are sampled by schedule seed",
        ],
        self_test: tb_self_test,
        post: None,
    }
}
