//! C07 — UCI session: one legal bestmove per go, faithful position tracking (process level).

use super::c03::SAME_PLACEMENT_BASES;
use super::c04::{LOW_MOBILITY, TERMINAL_FENS};
use super::c16;
use super::Plan;
use crate::gen;
use crate::oracle::rules::{parse_sq, Kind, Mv, Pos};
use crate::procdrv::{Line, Uci};
use crate::runner::{pick_index, Ctx, Local, Prop};
use proptest::prelude::*;
use serde::{Deserialize, Serialize};
use serde_json::json;
use std::time::Duration;

/// move lists from the start position that lose tempi and reach book placements without
/// castling rights (the book knows O-O for several of these placements)
pub const TEMPO_LINES: &[&str] = &[
    "g1f3 g8f6 h1g1 f6g8 g1h1 g8f6 e2e4 e7e5 f1b5 b8c6",
    "e2e4 e7e5 g1f3 b8c6 f1c4 f8c5 h1g1 g8f6 g1h1 f6g8",
    "e2e4 e7e5 g1f3 b8c6 f1b5 a7a6 b5a4 g8f6 e1e2 f8e7 e2e1 e7f8",
    "d2d4 d7d5 c2c4 e7e6 b1c3 g8f6 a1b1 f8e7 b1a1 e8f8 g1f3 f8e8",
    "e2e4 c7c5 g1f3 d7d6 e1e2 g8f6 e2e1 f6g8",
    "g1f3 d7d5 g2g3 g8f6 f1g2 e7e6 h1f1 f8e7 f1h1 e8f8 d2d3 f8e8",
];

pub const FEN_POOL: &[&str] = &[
    "8/8/8/8/8/2K5/7R/k7 w - - 0 1",
    "8/8/8/4k3/8/8/4P3/4K3 w - - 0 1",
    "6k1/5ppp/8/8/8/8/8/3RK3 w - - 0 1",
    "k7/8/8/1Q6/8/8/8/K7 w - - 0 1",
    "r3k2r/p1ppqpb1/bn2pnp1/3PN3/1p2P3/2N2Q1p/PPPBBPPP/R3K2R w KQkq - 0 1",
    "8/2p5/3p4/KP5r/1R3p1k/8/4P1P1/8 w - - 0 1",
    "4k3/8/8/2PpP3/8/8/8/4K3 w - d6 0 1",
    "1n1nkn1n/P1P3P1/8/8/8/8/p1p3p1/1N1NKN1N w - - 0 1",
    "1n1nkn1n/P1P3P1/8/8/8/8/p1p3p1/1N1NKN1N b - - 0 1",
    "8/5P1k/8/8/8/8/8/K7 w - - 0 1",
    "6rk/6pp/8/6N1/8/8/8/K7 w - - 0 1",
    "8/8/8/8/8/k2r4/8/K7 b - - 4 3",
    "7k/8/5K2/6Q1/8/8/8/8 w - - 0 1",
    "8/8/8/8/3k4/8/3p4/3K4 b - - 0 1",
];

#[derive(Debug, Clone, Serialize, Deserialize)]
pub enum PosSpec {
    /// start position + moves: (style, picks); style 0 = follow the book where possible, 1 = weighted random
    Startpos(u8, Vec<u16>),
    /// a tempo-losing line (index, how many of its moves), then picks
    Tempo(u8, u8, Vec<u16>),
    /// position from a pool (pool, index, variant), then picks
    Fen(u8, u8, u16, Vec<u16>),
}

#[derive(Debug, Clone, Serialize, Deserialize)]
pub enum Cmd {
    Uci,
    IsReady,
    NewGame,
    Position(PosSpec),
    /// a position command related to the previous one of the session: same start, and
    /// 0 = some moves taken back, 1 = continued by the picks, 2 = repeated as it was,
    /// 3 = the bare start, 4 = the last move replaced by another one
    PositionRelated(u8, u8, Vec<u16>),
    GoDepth(u8),
    GoMovetime(u16),
    GoBare,
    Stop,
    State,
}

#[derive(Debug, Clone, Copy, Serialize, Deserialize)]
pub enum Wait {
    None,
    FirstInfo,
    BestMove,
    Sleep(u8),
}

#[derive(Debug, Clone, Serialize, Deserialize)]
pub struct Step {
    pub cmd: Cmd,
    pub wait: Wait,
    /// send isready and wait for readyok after this command
    pub barrier: bool,
}

#[derive(Debug, Clone, Serialize, Deserialize)]
pub struct Session {
    pub steps: Vec<Step>,
    pub quit: bool,
}

fn picks(n: usize) -> impl Strategy<Value = Vec<u16>> {
    prop::collection::vec(any::<u16>(), 0..=n)
}

pub fn pos_spec_strategy() -> impl Strategy<Value = PosSpec> {
    prop_oneof![
        3 => (0u8..2, picks(12)).prop_map(|(s, p)| PosSpec::Startpos(s, p)),
        2 => (0u8..(TEMPO_LINES.len() as u8), 6u8..=12, picks(2)).prop_map(|(i, k, p)| PosSpec::Tempo(i, k, p)),
        4 => (0u8..4, any::<u8>(), any::<u16>(), picks(4)).prop_map(|(a, b, c, d)| PosSpec::Fen(a, b, c, d)),
    ]
}

pub fn session_strategy(max_steps: usize) -> impl Strategy<Value = Session> {
    let cmd = prop_oneof![
        1 => Just(Cmd::Uci),
        2 => Just(Cmd::IsReady),
        1 => Just(Cmd::NewGame),
        5 => pos_spec_strategy().prop_map(Cmd::Position),
        3 => (0u8..5, any::<u8>(), picks(3)).prop_map(|(k, n, p)| Cmd::PositionRelated(k, n, p)),
        5 => (1u8..=4).prop_map(Cmd::GoDepth),
        3 => (0u16..300).prop_map(Cmd::GoMovetime),
        1 => Just(Cmd::GoBare),
        3 => Just(Cmd::Stop),
        1 => Just(Cmd::State),
    ];
    let wait = prop_oneof![
        4 => Just(Wait::None),
        2 => Just(Wait::FirstInfo),
        3 => Just(Wait::BestMove),
        2 => (1u8..150).prop_map(Wait::Sleep),
    ];
    (
        prop::collection::vec((cmd, wait, any::<bool>()).prop_map(|(cmd, wait, barrier)| Step { cmd, wait, barrier }), 3..=max_steps),
        proptest::bool::weighted(0.7),
    )
        .prop_map(|(steps, quit)| Session { steps, quit })
}

/// A position command derived from the previous one (`prev` = its text): what GUIs really send -
/// the same game again with one more move, with a move taken back, from the start.
pub fn related(prev: Option<&str>, kind: u8, n: u8, pk: &[u16]) -> (Pos, String) {
    let prev = prev.unwrap_or("position startpos");
    let (head, moves) = match prev.split_once(" moves ") {
        Some((h, m)) => (h.to_string(), m.split(' ').map(|x| x.to_string()).collect::<Vec<_>>()),
        None => (prev.to_string(), vec![]),
    };
    let start = match head.strip_prefix("position fen ") {
        Some(f) => Pos::from_fen(f).expect("previous position command had a readable FEN"),
        None => Pos::startpos(),
    };
    let mut keep = moves.clone();
    let mut extend = false;
    let mut replace_last = false;
    match kind % 5 {
        0 if !moves.is_empty() => keep.truncate(moves.len() - 1 - (n as usize % moves.len())),
        0 | 1 => extend = true,
        2 => {}
        3 => keep.clear(),
        _ => {
            if moves.is_empty() {
                extend = true;
            } else {
                keep.pop();
                replace_last = true;
            }
        }
    }
    let mut p = start;
    for t in keep.iter() {
        let legal = p.legal();
        let (_, nx) = legal.iter().find(|(m, _)| m.lan() == *t).unwrap_or_else(|| panic!("move {} of the previous command is not legal in {}", t, p.fen())).clone();
        p = nx;
    }
    let mut out = keep;
    if replace_last {
        let legal = p.legal();
        let last = moves.last().unwrap();
        let others: Vec<&(Mv, Pos)> = legal.iter().filter(|(m, _)| m.lan() != *last).collect();
        if !others.is_empty() {
            let (m, nx) = others[pick_index(*pk.first().unwrap_or(&0), others.len())].clone();
            out.push(m.lan());
            p = nx;
        }
    }
    if extend {
        let pk: Vec<u16> = if pk.is_empty() { vec![n as u16 * 257] } else { pk.to_vec() };
        for k in pk.iter() {
            let legal = p.legal();
            if legal.is_empty() {
                break;
            }
            let (m, nx) = gen::choose(&p, &legal, *k).clone();
            out.push(m.lan());
            p = nx;
        }
    }
    let text = if out.is_empty() { head } else { format!("{} moves {}", head, out.join(" ")) };
    (p, text)
}

/// the position and the UCI text of a `position` command
pub fn resolve(spec: &PosSpec) -> (Pos, String) {
    let walk = |mut p: Pos, picks: &[u16], follow_book: bool| -> (Pos, Vec<String>) {
        let mut moves = vec![];
        for pk in picks {
            let legal = p.legal();
            if legal.is_empty() {
                break;
            }
            let recorded = if follow_book { c16::bookdata().expected.get(&c16::key(&p)) } else { None };
            let (m, n) = match recorded {
                Some((_, want, _)) => {
                    let v: Vec<&(Mv, Pos)> = legal.iter().filter(|(m, _)| want.contains(m)).collect();
                    v[pick_index(*pk, v.len())].clone()
                }
                None => gen::choose(&p, &legal, *pk).clone(),
            };
            moves.push(m.lan());
            p = n;
        }
        (p, moves)
    };
    match spec {
        PosSpec::Startpos(style, pk) => {
            let (p, moves) = walk(Pos::startpos(), pk, *style == 0);
            (p, if moves.is_empty() { "position startpos".to_string() } else { format!("position startpos moves {}", moves.join(" ")) })
        }
        PosSpec::Tempo(i, k, pk) => {
            let line: Vec<&str> = TEMPO_LINES[*i as usize % TEMPO_LINES.len()].split(' ').collect();
            let take = (*k as usize).min(line.len());
            let mut p = Pos::startpos();
            let mut moves: Vec<String> = vec![];
            for t in &line[..take] {
                let legal = p.legal();
                let (m, n) = legal
                    .iter()
                    .find(|(m, _)| m.lan() == *t)
                    .unwrap_or_else(|| panic!("tempo line move {} is not legal in {}", t, p.fen()))
                    .clone();
                moves.push(m.lan());
                p = n;
            }
            let (p, more) = walk(p, pk, true);
            moves.extend(more);
            (p, if moves.is_empty() { "position startpos".to_string() } else { format!("position startpos moves {}", moves.join(" ")) })
        }
        PosSpec::Fen(pool, idx, variant, pk) => {
            let base = match pool % 4 {
                0 => Pos::from_fen(FEN_POOL[*idx as usize % FEN_POOL.len()]).unwrap(),
                1 => {
                    let b = Pos::from_fen(SAME_PLACEMENT_BASES[*idx as usize % SAME_PLACEMENT_BASES.len()]).unwrap();
                    super::c03::variant_of(&b, *variant)
                }
                2 => Pos::from_fen(LOW_MOBILITY[*idx as usize % LOW_MOBILITY.len()]).unwrap(),
                _ => Pos::from_fen(TERMINAL_FENS[*idx as usize % TERMINAL_FENS.len()]).unwrap(),
            };
            let (p, moves) = walk(base.clone(), pk, false);
            let mut s = format!("position fen {}", base.fen());
            if !moves.is_empty() {
                s.push_str(&format!(" moves {}", moves.join(" ")));
            }
            (p, s)
        }
    }
}

fn parse_bestmove(line: &str) -> Option<(usize, usize, Option<Kind>)> {
    let t = line.strip_prefix("bestmove ")?.split(' ').next()?;
    if t.len() < 4 || !t.is_ascii() {
        return None;
    }
    let from = parse_sq(&t[0..2])?;
    let to = parse_sq(&t[2..4])?;
    let promo = match t.chars().nth(4) {
        None => None,
        Some('q') => Some(Kind::Q),
        Some('r') => Some(Kind::R),
        Some('b') => Some(Kind::B),
        Some('n') => Some(Kind::N),
        Some(_) => return None,
    };
    if t.len() > 5 {
        return None;
    }
    Some((from, to, promo))
}

struct GoRecord {
    pos: Pos,
    text: String,
    expects_move: bool,
}

pub struct Sessions {
    pub max_steps: usize,
}

impl Prop for Sessions {
    type Case = Session;
    fn name(&self) -> &'static str {
        "uci_sessions"
    }
    fn parallelism(&self, ctx: &Ctx) -> usize {
        ctx.threads.min(8)
    }
    fn max_shrink_iters(&self) -> u32 {
        40
    }
    fn max_shrink_time_ms(&self) -> u32 {
        180_000
    }
    fn strategy(&self, _: &Ctx) -> BoxedStrategy<Session> {
        session_strategy(self.max_steps).boxed()
    }
    fn test(&self, _: &Ctx, case: &Session, loc: &mut Local) -> Result<(), String> {
        run_session(case, loc)
    }
}

pub fn run_session(case: &Session, loc: &mut Local) -> Result<(), String> {
    let wait = Duration::from_secs(60);
    let mut u = Uci::spawn()?;
    // every third session is written with CR LF line ends, as a Windows front end does
    if case.steps.len() % 3 == 0 {
        u.eol = "\r\n";
        loc.class("session_with_cr_lf_line_ends");
    }
    let mut cur = Pos::startpos();
    let mut gos: Vec<GoRecord> = vec![];
    let mut isready_sent = 0usize;
    let mut last_position_text: Option<String> = None;
    let mut search_may_run = false;
    // the running search was started by a bare go: nothing obliges it to end before the next command
    let mut running_is_bare = false;
    let mut interrupted_go = false;
    let mut reused_memory_positions = 0usize;
    let mut book_transposed = false;
    let fail = |u: &Uci, msg: String| -> Result<(), String> { Err(format!("{}\n{}", msg, u.transcript())) };
    let bestmoves = |u: &Uci| u.out_lines().iter().filter(|l| l.starts_with("bestmove")).count();

    for step in case.steps.iter() {
        let joining = matches!(step.cmd, Cmd::Position(_) | Cmd::PositionRelated(..) | Cmd::GoDepth(_) | Cmd::GoMovetime(_) | Cmd::GoBare | Cmd::Stop | Cmd::NewGame);
        // gos that must have been answered once this (joining) command has been processed
        let needed_before = gos.iter().filter(|g| g.expects_move).count();
        let log_mark = u.log.len();
        match &step.cmd {
            Cmd::Uci => {
                u.send("uci");
                if u.wait_out(wait, "uciok").is_none() {
                    return fail(&u, "uci was not answered with uciok".into());
                }
                let lines: Vec<String> = u.log[log_mark..].iter().filter_map(|l| if let Line::Out(s) = l { Some(s.clone()) } else { None }).collect();
                let name = lines.iter().position(|l| l.starts_with("id name "));
                let author = lines.iter().position(|l| l.starts_with("id author "));
                let ok = lines.iter().position(|l| l == "uciok");
                if !(name.is_some() && author.is_some() && name < author && author < ok) {
                    return fail(&u, format!("uci must be answered with 'id name', 'id author', 'uciok' in this order; got {:?}", lines));
                }
            }
            Cmd::IsReady => {
                u.send("isready");
                isready_sent += 1;
                if u.wait_out(wait, "readyok").is_none() {
                    return fail(&u, format!("isready was not answered with readyok (a search {} running)", if search_may_run { "may be" } else { "is not" }));
                }
                if search_may_run {
                    loc.class("isready_while_search_may_run");
                }
            }
            Cmd::NewGame => {
                u.send("ucinewgame");
            }
            Cmd::Position(spec) => {
                let (p, text) = resolve(spec);
                if search_may_run {
                    interrupted_go = true;
                }
                u.send(&text);
                if !gos.is_empty() {
                    reused_memory_positions += 1;
                }
                if matches!(spec, PosSpec::Tempo(..)) && p.cas != [true; 4] {
                    let mut q = p.clone();
                    q.cas = [true; 4];
                    if q.is_legal_position() && c16::bookdata().expected.contains_key(&c16::key(&q)) {
                        book_transposed = true;
                    }
                }
                cur = p;
                last_position_text = Some(text);
            }
            Cmd::PositionRelated(kind, n, pk) => {
                let (p, text) = related(last_position_text.as_deref(), *kind, *n, pk);
                if search_may_run {
                    interrupted_go = true;
                }
                u.send(&text);
                if !gos.is_empty() {
                    reused_memory_positions += 1;
                }
                loc.class(match (last_position_text.is_some(), kind % 5) {
                    (false, _) => "related_position:no_previous_command",
                    (_, 0) => "related_position:moves_taken_back",
                    (_, 1) => "related_position:continued",
                    (_, 2) => "related_position:repeated",
                    (_, 3) => "related_position:bare_start",
                    _ => "related_position:last_move_replaced",
                });
                cur = p;
                last_position_text = Some(text);
            }
            Cmd::GoDepth(_) | Cmd::GoMovetime(_) | Cmd::GoBare => {
                let text = match &step.cmd {
                    Cmd::GoDepth(d) => {
                        // keep busy positions cheap
                        let d = if cur.men() > 16 { (*d).min(3) } else { *d };
                        format!("go depth {}", d)
                    }
                    Cmd::GoMovetime(ms) => format!("go movetime {}", ms),
                    _ => "go".to_string(),
                };
                if search_may_run {
                    interrupted_go = true;
                }
                u.send(&text);
                gos.push(GoRecord { pos: cur.clone(), text, expects_move: cur.has_legal_move() });
                search_may_run = true;
                running_is_bare = matches!(step.cmd, Cmd::GoBare);
            }
            Cmd::Stop => {
                if search_may_run {
                    interrupted_go = true;
                }
                u.send("stop");
                search_may_run = false;
            }
            Cmd::State => {
                u.send(".state");
                let want = cur.fen();
                // the FEN is the first non-empty stderr line of the pretty printer
                let got = u.wait_for(Duration::from_secs(30), |l| matches!(l, Line::Err(s) if s.trim().split(' ').count() == 6 && s.contains('/')));
                match got {
                    None => return fail(&u, ".state printed no position".into()),
                    Some(i) => {
                        if let Line::Err(s) = &u.log[i] {
                            if s.trim() != want {
                                return fail(&u, format!("after the position commands the engine's position is '{}' but chess rules give '{}'", s.trim(), want));
                            }
                        }
                    }
                }
                loc.class("state_compared");
            }
        }
        loc.eval();
        match step.wait {
            Wait::None => {}
            Wait::FirstInfo => {
                if search_may_run {
                    let _ = u.wait_for(Duration::from_secs(5), |l| matches!(l, Line::Out(s) if s.starts_with("info") || s.starts_with("bestmove")));
                }
            }
            Wait::Sleep(ms) => u.drain(Duration::from_millis(ms as u64)),
            Wait::BestMove => {
                let expected = gos.iter().filter(|g| g.expects_move).count();
                if bestmoves(&u) < expected {
                    // a go with a depth or a movetime ends by itself; a bare go is only owed an answer
                    // when the next stop / go / position / quit arrives (the engine's 4 s default limit
                    // is not part of the property), so the driver asks for it.
                    // The watchdog counts silence, not total time (see Uci::wait_for)
                    if search_may_run && running_is_bare {
                        u.send("stop");
                        interrupted_go = true;
                        loc.class("bare_go_ended_by_stop_before_waiting");
                    }
                    let mut seen = bestmoves(&u);
                    while seen < expected {
                        if u.wait_for(wait, |l| matches!(l, Line::Out(s) if s.starts_with("bestmove"))).is_none() {
                            break;
                        }
                        seen += 1;
                    }
                    if bestmoves(&u) < expected {
                        let g = gos.iter().filter(|g| g.expects_move).nth(bestmoves(&u)).unwrap();
                        return fail(&u, format!("'{}' on '{}' was not answered with a bestmove within {:?}", g.text, g.pos.fen(), wait));
                    }
                }
                search_may_run = false;
            }
        }
        if step.barrier {
            u.send("isready");
            isready_sent += 1;
            if u.wait_out(wait, "readyok").is_none() {
                let alive = u.alive();
                return fail(&u, format!("isready after '{:?}' was not answered within {:?} (process alive: {})", step.cmd, wait, alive));
            }
            if joining {
                // the command before this barrier joined the running search and its writer:
                // every earlier go has been answered by now
                if bestmoves(&u) < needed_before {
                    let g = gos.iter().filter(|g| g.expects_move).nth(bestmoves(&u)).unwrap();
                    return fail(&u, format!("'{}' on '{}' had not been answered when the next command ({:?}) was acknowledged", g.text, g.pos.fen(), step.cmd));
                }
            }
        }
        let sent_gos = gos.len();
        if bestmoves(&u) > sent_gos {
            return fail(&u, format!("{} bestmove lines for {} go commands", bestmoves(&u), sent_gos));
        }
    }
    if case.quit {
        u.send("quit");
    }
    let status = if case.quit { u.wait_exit(wait) } else { u.close_and_wait(wait) };
    match status {
        Some(Some(0)) => {}
        other => return fail(&u, format!("{} ended the process with {:?}, expected exit status 0 within {:?}", if case.quit { "quit" } else { "end of input" }, other, wait)),
    }
    // exactly one legal bestmove per go on a position with a legal move, in order
    let lines: Vec<String> = u.out_lines().iter().map(|s| s.to_string()).collect();
    let best: Vec<&String> = lines.iter().filter(|l| l.starts_with("bestmove")).collect();
    let expecting: Vec<&GoRecord> = gos.iter().filter(|g| g.expects_move).collect();
    if best.len() != expecting.len() {
        return fail(&u, format!("{} go commands on positions with a legal move but {} bestmove lines", expecting.len(), best.len()));
    }
    for (b, g) in best.iter().zip(expecting.iter()) {
        let Some((from, to, promo)) = parse_bestmove(b) else {
            return fail(&u, format!("'{}' is not coordinate notation", b));
        };
        let n = g.pos.legal().iter().filter(|(m, _)| m.from == from && m.to == to && m.promo == promo).count();
        if n != 1 {
            return fail(&u, format!("'{}' answers '{}' on '{}' but is not a legal move there", b, g.text, g.pos.fen()));
        }
    }
    // every `info pv` line is a legal line of the position its search was started on (the lines of a
    // search come before its bestmove, the next search's after it)
    let mut answered = 0usize;
    let mut pv_lines = 0usize;
    for l in lines.iter() {
        if l.starts_with("bestmove") {
            answered += 1;
        } else if let Some(pv) = l.strip_prefix("info pv") {
            let Some(g) = expecting.get(answered) else {
                return fail(&u, format!("an 'info pv' line was printed although no go is waiting for an answer: '{}'", l.chars().take(120).collect::<String>()));
            };
            let mut p = g.pos.clone();
            for (k, t) in pv.split(' ').filter(|t| !t.is_empty()).enumerate() {
                let legal = p.legal();
                match legal.iter().find(|(m, _)| m.lan() == t) {
                    Some((_, n)) => p = n.clone(),
                    None => {
                        return fail(&u, format!("'info pv' of '{}' on '{}': token {} ('{}') is not a legal move in coordinate notation at that point of the line '{}'", g.text, g.pos.fen(), k + 1, t.chars().take(20).collect::<String>(), pv.chars().take(160).collect::<String>()));
                    }
                }
            }
            pv_lines += 1;
        }
    }
    if pv_lines > 0 {
        loc.class("info_pv_lines_checked");
    }
    let readyok = lines.iter().filter(|l| *l == "readyok").count();
    if readyok != isready_sent {
        return fail(&u, format!("{} isready commands but {} readyok lines", isready_sent, readyok));
    }
    // accounting
    let book_answers = lines.iter().filter(|l| l.starts_with("info string book move")).count();
    if book_answers > 0 {
        loc.class("book_answer");
    }
    if expecting.len() > book_answers {
        loc.class("search_answer");
    }
    if gos.iter().any(|g| !g.expects_move) {
        loc.class("go_on_terminal_position");
    }
    if interrupted_go {
        loc.class("go_interrupted_by_later_command");
    }
    if interrupted_go && expecting.len() > book_answers || reused_memory_positions >= 2 || book_transposed {
        loc.nontrivial(&format!("{:?}", case));
    }
    if book_transposed {
        loc.class("book_placement_reached_without_rights");
    }
    if !case.quit {
        loc.class("ended_by_eof");
    }
    loc.sample(|| json!({"sent": u.sent, "bestmoves": best}));
    Ok(())
}


// ------------------------------------------------------- isready while a search is running

/// Quiet, legal, non-book positions without a quick mate: a search on them with a movetime
/// cannot end before the time is up.
pub const QUIET_POOL: &[&str] = &[
    "r3k2r/p1ppqpb1/bn2pnp1/3PN3/1p2P3/2N2Q1p/PPPBBPPP/R3K2R w KQkq - 0 1",
    "8/2p5/3p4/KP5r/1R3p1k/8/4P1P1/8 w - - 0 1",
    "r4rk1/1pp1qppp/p1np1n2/2b1p1B1/2B1P1b1/P1NP1N2/1PP1QPPP/R4RK1 w - - 0 10",
    "4k3/p1p1p1p1/8/1P1P1P1P/1p1p1p1p/8/P1P1P1P1/4K3 w - - 0 1",
    "8/8/8/4k3/8/8/4P3/4K3 w - - 0 1",
    "r1bq1rk1/pp2bppp/2n1pn2/3p4/3P4/2NBPN2/PP3PPP/R1BQ1RK1 w - - 0 9",
];

#[derive(Debug, Clone, Serialize, Deserialize)]
pub struct ReadyCase {
    pub pool: u8,
    /// 0 = go movetime ms, 1 = go depth 30 (ended by the default timer), 2 = bare go
    pub kind: u8,
    pub movetime: u16,
    /// how many isready are sent right after the go
    pub pings: u8,
    /// then: 0 = nothing, 1 = stop, 2 = quit
    pub then: u8,
}

pub struct ReadyDuringSearch;

impl Prop for ReadyDuringSearch {
    type Case = ReadyCase;
    fn name(&self) -> &'static str {
        "isready_during_search"
    }
    fn parallelism(&self, ctx: &Ctx) -> usize {
        ctx.threads.min(6)
    }
    fn max_shrink_iters(&self) -> u32 {
        10
    }
    fn strategy(&self, _: &Ctx) -> BoxedStrategy<ReadyCase> {
        (0u8..(QUIET_POOL.len() as u8), 0u8..3, 1500u16..3000, 1u8..=3, 0u8..3)
            .prop_map(|(pool, kind, movetime, pings, then)| ReadyCase { pool, kind, movetime, pings, then })
            .boxed()
    }
    fn test(&self, _: &Ctx, case: &ReadyCase, loc: &mut Local) -> Result<(), String> {
        let wait = Duration::from_secs(60);
        let fen = QUIET_POOL[case.pool as usize % QUIET_POOL.len()];
        let mut u = Uci::spawn()?;
        u.send(&format!("position fen {}", fen));
        u.send("isready");
        if u.wait_out(wait, "readyok").is_none() {
            return Err(format!("no readyok before the search\n{}", u.transcript()));
        }
        let go = match case.kind % 3 {
            0 => format!("go movetime {}", case.movetime),
            1 => "go depth 30".to_string(),
            _ => "go".to_string(),
        };
        // the pings are sent a little into the search (its time limit is at least 1.5 s away)
        let mark = u.log.len();
        u.send(&go);
        u.drain(Duration::from_millis(50 + (case.movetime as u64 % 600)));
        let ping_sent = std::time::Instant::now();
        for _ in 0..case.pings {
            u.send("isready");
        }
        // the last ping of every second case is followed by a `uci`, which must be answered
        // during the search as well
        let uci_ping = case.movetime % 2 == 0;
        if uci_ping {
            u.send("uci");
        }
        match case.then % 3 {
            1 => {
                u.send("stop");
            }
            2 => {
                u.send("quit");
            }
            _ => {}
        }
        if case.kind % 3 != 0 && case.then % 3 == 0 {
            // no time limit of its own (the engine's 4 s default is not part of the property): give the
            // answers to the pings five seconds, then ask for the bestmove
            let mut seen = 0;
            let need = case.pings as usize + uci_ping as usize;
            let until = std::time::Instant::now() + Duration::from_secs(5);
            while seen < need {
                match u.wait_until(until, |l| matches!(l, Line::Out(s) if s == "readyok" || s == "uciok" || s.starts_with("bestmove"))) {
                    Some(i) if matches!(&u.log[i], Line::Out(s) if s.starts_with("bestmove")) => break,
                    Some(_) => seen += 1,
                    None => break,
                }
            }
            u.send("stop");
        }
        if !u.log[mark..].iter().any(|l| matches!(l, Line::Out(s) if s.starts_with("bestmove"))) && u.wait_out_prefix(wait, "bestmove").is_none() {
            return Err(format!("'{}' on '{}' was not answered with a bestmove\n{}", go, fen, u.transcript()));
        }
        u.drain(Duration::from_millis(300));
        loc.eval();
        let out: Vec<(usize, &String)> = u.log.iter().enumerate().skip(mark).filter_map(|(i, l)| if let Line::Out(s) = l { Some((i, s)) } else { None }).collect();
        let best = out.iter().find(|(_, l)| l.starts_with("bestmove")).map(|x| x.0).unwrap_or(usize::MAX);
        let readies: Vec<usize> = out.iter().filter(|(_, l)| *l == "readyok").map(|x| x.0).collect();
        if readies.len() != case.pings as usize {
            return Err(format!("{} isready sent while '{}' was running, {} readyok received\n{}", case.pings, go, readies.len(), u.transcript()));
        }
        // answered while the search runs: a readyok that arrives after the bestmove of that search
        // is late - unless the bestmove was already on its way when the ping was written (it then
        // arrives within milliseconds of the ping; half a second of grace)
        if uci_ping {
            match out.iter().find(|(_, l)| *l == "uciok") {
                None => return Err(format!("uci sent while '{}' was running was not answered with uciok\n{}", go, u.transcript())),
                Some((i, _)) => {
                    if best != usize::MAX && *i > best && u.stamps[best].duration_since(ping_sent) > Duration::from_millis(500) {
                        return Err(format!("uci sent while '{}' was running on '{}' was answered only after that search's bestmove\n{}", go, fen, u.transcript()));
                    }
                }
            }
        }
        if best != usize::MAX {
            let best_at = u.stamps[best];
            if let Some(late) = readies.iter().find(|i| **i > best) {
                if best_at.duration_since(ping_sent) > Duration::from_millis(500) {
                    return Err(format!(
                        "isready sent while '{}' was running on '{}' was answered only after that search's bestmove, which arrived {:?} after the isready had been written (readyok is log entry {}, bestmove {}): isready must be answered while a search runs\n{}",
                        go, fen, best_at.duration_since(ping_sent), late, best, u.transcript()
                    ));
                }
                loc.class("ping_raced_with_end_of_search");
            }
        }
        loc.nontrivial(&format!("{:?}", case));
        loc.class(match case.then % 3 { 0 => "search_ends_by_itself", 1 => "then_stop", _ => "then_quit" });
        loc.sample(|| json!({"fen": fen, "go": go, "pings": case.pings, "readyok_lines": readies, "bestmove_line": best}));
        if case.then % 3 != 2 {
            u.send("quit");
        }
        match u.wait_exit(wait) {
            Some(Some(0)) => Ok(()),
            other => Err(format!("quit ended the process with {:?}\n{}", other, u.transcript())),
        }
    }
}

// ------------------------------------------------------- a time-limited go ends when its time is up

#[derive(Debug, Clone, Serialize, Deserialize)]
pub struct TimedCase {
    pub pool: u8,
    pub movetime: u16,
}

/// Allowance on top of the limit: process scheduling under load, the 100 ms timer poll, the
/// uninterruptible first iteration, the join of up to 32 workers.
const TIME_SLACK: Duration = Duration::from_secs(20);

pub struct GoEndsOnTime;

impl Prop for GoEndsOnTime {
    type Case = TimedCase;
    fn name(&self) -> &'static str {
        "go_ends_on_time"
    }
    fn parallelism(&self, ctx: &Ctx) -> usize {
        ctx.threads.min(6)
    }
    fn max_shrink_iters(&self) -> u32 {
        8
    }
    fn strategy(&self, _: &Ctx) -> BoxedStrategy<TimedCase> {
        let ms = prop_oneof![3 => 0u16..40, 2 => 40u16..400, 2 => 400u16..2500];
        (0u8..(QUIET_POOL.len() as u8), ms).prop_map(|(pool, movetime)| TimedCase { pool, movetime }).boxed()
    }
    fn test(&self, _: &Ctx, case: &TimedCase, loc: &mut Local) -> Result<(), String> {
        let wait = Duration::from_secs(60);
        let pool = case.pool as usize % QUIET_POOL.len();
        let fen = QUIET_POOL[pool];
        let mut u = Uci::spawn()?;
        u.send(&format!("position fen {}", fen));
        u.send("isready");
        if u.wait_out(wait, "readyok").is_none() {
            return Err(format!("no readyok before the search\n{}", u.transcript()));
        }
        let go = format!("go movetime {}", case.movetime);
        let limit_ms = case.movetime as u64;
        let mark = u.log.len();
        let sent = std::time::Instant::now();
        u.send(&go);
        // nothing else is sent: the search has to end by itself
        let deadline = sent + Duration::from_millis(limit_ms) + TIME_SLACK;
        let is_best = |l: &Line| matches!(l, Line::Out(s) if s.starts_with("bestmove"));
        let mut got = u.wait_until(deadline, is_best);
        loc.eval();
        if got.is_none() {
            let bytes: usize = u.log[mark..].iter().map(|l| if let Line::Out(s) = l { s.len() } else { 0 }).sum();
            if bytes > 2_000_000 {
                // megabytes of pv lines are still in the pipe: the lateness is the reader's backlog
                loc.class("timed:output_backlog_inconclusive");
                got = u.wait_for(wait, is_best);
                if got.is_none() {
                    return Err(format!("'{}' on '{}' was never answered with a bestmove\n{}", go, fen, u.transcript()));
                }
            } else {
                return Err(format!(
                    "'{}' on '{}' (time limit {} ms) was not answered with a bestmove within {} ms + {:?} although nothing else was sent: a go must be answered when its time is up, not only when the next command arrives ({} bytes of output so far)\n{}",
                    go, fen, limit_ms, limit_ms, TIME_SLACK, bytes, u.transcript()
                ));
            }
        }
        let elapsed = u.stamps[got.unwrap()].duration_since(sent);
        u.drain(Duration::from_millis(200));
        let n = u.log[mark..].iter().filter(|l| is_best(l)).count();
        if n != 1 {
            return Err(format!("{} bestmove lines for one '{}'\n{}", n, go, u.transcript()));
        }
        loc.nontrivial(&format!("{:?}", (pool, case.movetime)));
        loc.class(match case.movetime {
            0..=39 => "timed:movetime_under_40ms",
            40..=399 => "timed:movetime_under_400ms",
            _ => "timed:movetime_400ms_and_more",
        });
        loc.sample(|| json!({"fen": fen, "go": go, "limit_ms": limit_ms, "answered_after_ms": elapsed.as_millis() as u64}));
        u.send("quit");
        match u.wait_exit(wait) {
            Some(Some(0)) => Ok(()),
            other => Err(format!("quit ended the process with {:?}\n{}", other, u.transcript())),
        }
    }
}

pub fn plan(ctx: &Ctx) -> Plan {
    let t = ctx.tier;
    Plan {
        props: vec![
            (Box::new(Sessions { max_steps: 14 }), t.pick(160, 6_000)),
            (Box::new(ReadyDuringSearch), t.pick(24, 600)),
            (Box::new(GoEndsOnTime), t.pick(36, 900)),
        ],
        rule: "generated sessions of 3-14 commands over {uci, isready, ucinewgame, position startpos|fen [legal moves], position \
               commands derived from the previous one (moves taken back, continued, repeated, bare start, last move replaced), go \
               depth 1-4, go movetime 0-299, bare go, stop, .state} plus per-command driver timing {send next at once, wait \
               for first info, wait for bestmove, sleep 1-149 ms} and optional isready barriers, ended by quit or end of \
               input; every third session with CR LF line ends. Positions: book lines, random play, tempo-losing lines that reach book placements without castling \
               rights, same placement under different rights/ep across position commands, sparse endgames, low-mobility \
               pawn walls, positions one move before mate, mated and stalemated positions. Oracle (session model on the \
               rules oracle): uci -> id name, id author, uciok in order; every isready -> exactly one readyok, also while a \
               search runs; the i-th bestmove line is a legal move (coordinates + lower-case promotion letter) of the \
               position current at the i-th go that had a legal move, exactly one each, none without a go; the bestmove of \
               an earlier go precedes the readyok of a barrier placed after the next stop/go/position/ucinewgame; every 'info pv' \
               line is a legal line, in coordinate notation, of the position its search was started on; .state \
               prints the FEN chess rules define; quit / end of input -> exit status 0. Waits of 60 s are watchdogs on \
               silence (typical latency < 1 s; a process that keeps printing is never timed out). Second part (isready_during_search): on quiet non-book positions a go with at least 1.5 s to \
               run (movetime, depth 30 or bare go) is followed back to back by 1-3 isready and \
               then nothing / stop / quit: every readyok must be printed before that search's bestmove. Third part \
               (go_ends_on_time): on the same positions one go movetime 0-2499 ms (small values weighted) and then \
               silence: exactly one bestmove must arrive within movetime + 20 s of the go being written (inconclusive, \
               and counted, if more than 2 MB of output are in flight). A go without depth or movetime is never required \
               to end before the next command: the driver sends stop before waiting for its bestmove. \
               Non-trivial = distinct sessions with a search-answered go interrupted by a later \
               command, or >= 2 position commands after a go (memory reuse), or a book placement reached without rights.",
        assumptions: &[
            "command timing relative to search progress is sampled by the driver actions, not controlled at instruction level; the oracle does not depend on which side of a race a command landed",
            "the engine seeds itself from the OS: the oracle is seed-independent",
        ],
        self_test: |ctx| {
            c16::self_test(ctx)?;
            // the hand-written move lists and pools must be legal
            for i in 0..TEMPO_LINES.len() {
                let r = std::panic::catch_unwind(|| resolve(&PosSpec::Tempo(i as u8, 20, vec![])));
                if r.is_err() {
                    return Err(format!("tempo line {} is not a legal game", i));
                }
            }
            for f in FEN_POOL.iter().chain(LOW_MOBILITY.iter()).chain(TERMINAL_FENS.iter()).chain(SAME_PLACEMENT_BASES.iter()) {
                match Pos::from_fen(f) {
                    Some(p) if p.is_legal_position() => {}
                    _ => return Err(format!("pool position {} is not legal", f)),
                }
            }
            crate::procdrv::binary_exists()
        },
        post: None,
    }
}
