//! C16 — the opening book offers exactly the recorded, legal moves.

use super::Plan;
use crate::glue;
use crate::oracle::pgn;
use crate::oracle::rules::{Col, Kind, Mv, Pos};
use crate::oracle::san;
use crate::runner::{par_range, pick_index, Ctx, DynProp, Local, Prop};
use proptest::prelude::*;
use serde::{Deserialize, Serialize};
use serde_json::{json, Value};
use std::collections::{BTreeMap, BTreeSet};
use std::sync::OnceLock;
use weechess_engine::book::OpeningBook;

pub const BOOK_DIR: &str = "/repo/book";
pub const BOOK_PLIES: usize = 10;

/// Identity of a position for the book: placement, side, rights and en-passant capture
/// availability (the target square only counts when a pawn can capture onto it).
pub fn key(p: &Pos) -> String {
    format!(
        "{} {:?} {} {}",
        p.placement(),
        p.stm,
        p.castle_str(),
        if p.ep_capture_pseudo() { crate::oracle::rules::sq_name(p.ep.unwrap()) } else { "-".to_string() }
    )
}

pub struct BookData {
    pub games: usize,
    pub files: usize,
    /// key -> (a representative position, the moves played from it, where it was first seen)
    pub expected: BTreeMap<String, (Pos, BTreeSet<Mv>, String)>,
    pub keys: Vec<String>,
    pub pseudo_legal_ep_mismatch: usize,
    pub errors: Vec<String>,
}

pub fn bookdata() -> &'static BookData {
    static D: OnceLock<BookData> = OnceLock::new();
    D.get_or_init(|| {
        let mut files: Vec<_> = std::fs::read_dir(BOOK_DIR)
            .expect("cannot read /repo/book")
            .filter_map(|e| e.ok())
            .filter(|e| e.file_type().map(|t| t.is_file()).unwrap_or(false))
            .map(|e| e.path())
            .collect();
        files.sort();
        let mut expected: BTreeMap<String, (Pos, BTreeSet<Mv>, String)> = BTreeMap::new();
        let mut games = 0;
        let mut errors = vec![];
        let mut mismatch = 0;
        for f in files.iter() {
            let text = std::fs::read_to_string(f).expect("cannot read book file");
            let name = f.file_name().unwrap().to_string_lossy().to_string();
            for g in pgn::parse(&name, &text) {
                games += 1;
                let mut p = Pos::startpos();
                for (i, s) in g.san.iter().take(BOOK_PLIES).enumerate() {
                    let legal = p.legal();
                    match san::read(&legal, s) {
                        Ok(j) => {
                            let (m, n) = legal[j].clone();
                            if p.ep_capture_pseudo() != p.ep_capture_legal() {
                                mismatch += 1;
                            }
                            let e = expected
                                .entry(key(&p))
                                .or_insert_with(|| (p.clone(), BTreeSet::new(), format!("{}:{} ply {}", g.file, g.line, i)));
                            e.1.insert(m);
                            p = n;
                        }
                        Err(e) => {
                            errors.push(format!("{}:{} ply {}: {}", g.file, g.line, i, e));
                            break;
                        }
                    }
                }
            }
        }
        let keys = expected.keys().cloned().collect();
        BookData { games, files: files.len(), expected, keys, pseudo_legal_ep_mismatch: mismatch, errors }
    })
}

pub fn book() -> &'static OpeningBook {
    static BK: OnceLock<OpeningBook> = OnceLock::new();
    BK.get_or_init(|| OpeningBook::try_default().expect("OpeningBook::try_default failed"))
}

pub fn self_test(ctx: &Ctx) -> Result<(), String> {
    super::oracle_self_test(ctx)?;
    let d = bookdata();
    // every game of every file is read: compare with a plain count of [Event tags
    let mut events = 0;
    for e in std::fs::read_dir(BOOK_DIR).map_err(|e| e.to_string())? {
        let e = e.map_err(|e| e.to_string())?;
        if e.file_type().map(|t| t.is_file()).unwrap_or(false) {
            let t = std::fs::read_to_string(e.path()).map_err(|e| e.to_string())?;
            events += t.lines().filter(|l| l.starts_with("[Event ")).count();
        }
    }
    if d.games != events {
        return Err(format!("the PGN reader found {} games but the files contain {} [Event tags", d.games, events));
    }
    if !d.errors.is_empty() {
        return Err(format!("the oracle cannot replay {} book games, first: {}", d.errors.len(), d.errors[0]));
    }
    Ok(())
}

fn offered(p: &Pos) -> Option<BTreeSet<Mv>> {
    let s = glue::state_direct(p);
    book().lookup(&s).map(|set| set.iter().map(glue::read_move).collect())
}

fn fmt_moves(s: &BTreeSet<Mv>) -> String {
    s.iter().map(|m| m.lan()).collect::<Vec<_>>().join(" ")
}

/// the weak claim for any position: nothing, or only legal moves
pub fn check_subset_of_legal(p: &Pos) -> Result<Option<BTreeSet<Mv>>, String> {
    let got = offered(p);
    if let Some(g) = &got {
        let legal: BTreeSet<Mv> = p.legal_moves().into_iter().collect();
        let bad: BTreeSet<Mv> = g.difference(&legal).cloned().collect();
        if !bad.is_empty() {
            return Err(format!(
                "for '{}' the book offers {} which {} not legal there (offered: {})",
                p.fen(), fmt_moves(&bad), if bad.len() == 1 { "is" } else { "are" }, fmt_moves(g)
            ));
        }
        if g.is_empty() {
            return Err(format!("for '{}' the book offers an empty move set", p.fen()));
        }
    }
    Ok(got)
}

/// the strong claim for a recorded position: exactly the recorded moves
pub fn check_exact(p: &Pos, want: &BTreeSet<Mv>, seen: &str) -> Result<(), String> {
    let got = check_subset_of_legal(p)?.unwrap_or_default();
    if got != *want {
        let missing: BTreeSet<Mv> = want.difference(&got).cloned().collect();
        let extra: BTreeSet<Mv> = got.difference(want).cloned().collect();
        return Err(format!(
            "book position '{}' (first seen {}): games play {{{}}} but the book offers {{{}}}; missing {{{}}}, extra {{{}}}",
            p.fen(), seen, fmt_moves(want), fmt_moves(&got), fmt_moves(&missing), fmt_moves(&extra)
        ));
    }
    Ok(())
}

// ------------------------------------------------------------------ exhaustive: recorded

pub struct Recorded;

impl DynProp for Recorded {
    fn name(&self) -> &'static str {
        "book_recorded_positions"
    }
    fn run(&self, ctx: &Ctx, _: u64) {
        let d = bookdata();
        par_range(ctx, "book_recorded_positions", d.keys.len() as u64, |i, loc| {
            let k = &d.keys[i as usize];
            let (p, want, seen) = &d.expected[k];
            loc.eval();
            if want.len() >= 2 {
                loc.nontrivial(k);
            }
            if i % 4000 == 0 {
                loc.sample(|| json!({"position": p.fen(), "recorded_moves": fmt_moves(want), "first_seen": seen}));
            }
            check_exact(p, want, seen).map_err(|m| (json!({"key": k}), m))
        });
        ctx.mark_exhaustive("every position in the first ten plies of every game of every file in book/");
        ctx.extra("book", json!({"files": d.files, "games": d.games, "positions": d.keys.len(), "positions_where_pseudo_and_legal_ep_availability_differ": d.pseudo_legal_ep_mismatch}));
    }
    fn replay(&self, _: &Ctx, case: &Value) -> Result<(), String> {
        let d = bookdata();
        let k = case["key"].as_str().ok_or("no key")?;
        match d.expected.get(k) {
            Some((p, want, seen)) => check_exact(p, want, seen),
            None => Ok(()), // the games no longer contain this position
        }
    }
}

// ------------------------------------------------------- variants of recorded positions

#[derive(Debug, Clone, Serialize, Deserialize)]
pub struct VariantCase {
    pub pick: u32,
    pub rights_mask: u8,
    /// 0 keep, 1 drop the ep target, 2 flip the side to move (if nobody is in check), 3 other move counters
    pub other: u8,
}

pub struct Variants;

impl Prop for Variants {
    type Case = VariantCase;
    fn name(&self) -> &'static str {
        "book_right_stripped_variants"
    }
    fn strategy(&self, _: &Ctx) -> BoxedStrategy<VariantCase> {
        (any::<u32>(), 0u8..16, prop_oneof![4 => Just(0u8), 1 => Just(1u8), 1 => Just(2u8), 2 => Just(3u8)])
            .prop_map(|(pick, rights_mask, other)| VariantCase { pick, rights_mask, other })
            .boxed()
    }
    fn test(&self, _: &Ctx, case: &VariantCase, loc: &mut Local) -> Result<(), String> {
        let d = bookdata();
        let (base, base_moves, _) = &d.expected[&d.keys[case.pick as usize % d.keys.len()]];
        let mut p = base.clone();
        for i in 0..4 {
            p.cas[i] = base.cas[i] && (case.rights_mask >> i) & 1 == 1;
        }
        match case.other {
            3 => {
                // the same position with other move counters: the book must not care
                p.half = (case.pick % 97) as u64;
                p.full = 1 + (case.pick as u64 / 97) % 150;
            }
            1 => p.ep = None,
            2 => {
                if p.ep.is_none() && !p.in_check(p.stm) {
                    p.stm = p.stm.opp();
                }
            }
            _ => {}
        }
        if !p.is_legal_position() {
            return Ok(());
        }
        loc.eval();
        let k = key(&p);
        if let Some((_, want, seen)) = d.expected.get(&k) {
            // the variant is itself a recorded position (or the base itself)
            loc.class("variant_is_recorded");
            return check_exact(&p, want, seen);
        }
        let got = check_subset_of_legal(&p)?;
        loc.class(if got.is_some() { "variant_offered_moves" } else { "variant_offered_nothing" });
        if p.cas != base.cas {
            loc.class("rights_stripped");
            if base_moves.iter().any(|m| m.castle.is_some()) {
                loc.class("base_offers_castling");
                loc.nontrivial(&k);
            }
        }
        loc.sample(|| json!({"base": base.fen(), "variant": p.fen(), "offered": got.as_ref().map(fmt_moves)}));
        Ok(())
    }
}

// ------------------------------------------------------------------------ real histories

#[derive(Debug, Clone, Serialize, Deserialize)]
pub struct HistoryCase {
    /// per ply: (kind, pick); kind 0-5 follow the book, 6-8 shuffle a rook/knight/king, 9 any legal move
    pub plies: Vec<(u8, u16)>,
}

pub struct Histories;

impl Prop for Histories {
    type Case = HistoryCase;
    fn name(&self) -> &'static str {
        "book_move_histories"
    }
    fn strategy(&self, _: &Ctx) -> BoxedStrategy<HistoryCase> {
        prop::collection::vec((0u8..10, any::<u16>()), 0..26)
            .prop_map(|plies| HistoryCase { plies })
            .boxed()
    }
    fn test(&self, _: &Ctx, case: &HistoryCase, loc: &mut Local) -> Result<(), String> {
        let d = bookdata();
        let mut p = Pos::startpos();
        let mut state = glue::state_direct(&p);
        let mut tempo_lost = false;
        let mut last_move: [Option<Mv>; 2] = [None, None];
        for (kind, pick) in case.plies.iter() {
            // the lookup is made on the state reached by weechess's own successors
            let got: Option<BTreeSet<Mv>> = book().lookup(&state).map(|s| s.iter().map(glue::read_move).collect());
            loc.eval();
            let legal = p.legal();
            let legal_set: BTreeSet<Mv> = legal.iter().map(|x| x.0).collect();
            if let Some(g) = &got {
                let bad: BTreeSet<Mv> = g.difference(&legal_set).cloned().collect();
                if !bad.is_empty() {
                    return Err(format!("after a real move history reaching '{}' the book offers the illegal {} (offered: {})", p.fen(), fmt_moves(&bad), fmt_moves(g)));
                }
            }
            let k = key(&p);
            match d.expected.get(&k) {
                Some((_, want, seen)) => {
                    loc.class("on_recorded_position");
                    if got.clone().unwrap_or_default() != *want {
                        return Err(format!(
                            "history reaching the recorded position '{}' (first seen {}): games play {{{}}}, the book offers {{{}}}",
                            p.fen(), seen, fmt_moves(want), fmt_moves(&got.unwrap_or_default())
                        ));
                    }
                    if tempo_lost {
                        loc.class("recorded_position_reached_by_transposition");
                    }
                }
                None => {
                    if got.is_some() {
                        loc.class("unrecorded_position_offered_moves");
                    }
                    // same placement as some recorded position but other rights / ep?
                    if tempo_lost && p.cas != [true; 4] {
                        let mut q = p.clone();
                        q.cas = [true; 4];
                        if q.is_legal_position() && d.expected.contains_key(&key(&q)) {
                            loc.class("book_placement_with_fewer_rights");
                            loc.nontrivial(&k);
                        }
                    }
                }
            }
            if legal.is_empty() {
                break;
            }
            // choose the next move
            let book_moves: Vec<&(Mv, Pos)> = match d.expected.get(&k) {
                Some((_, want, _)) => legal.iter().filter(|(m, _)| want.contains(m)).collect(),
                None => vec![],
            };
            let shuffles: Vec<&(Mv, Pos)> = legal
                .iter()
                .filter(|(m, _)| matches!(m.kind, Kind::N | Kind::R | Kind::K) && m.cap.is_none() && m.castle.is_none())
                .collect();
            // undo this side's previous move (round trips lose tempi and rights)
            let undo: Option<&(Mv, Pos)> = last_move[p.stm as usize]
                .and_then(|lm: Mv| legal.iter().find(|(m, _)| m.from == lm.to && m.to == lm.from && m.kind == lm.kind && m.cap.is_none()));
            let chosen: &(Mv, Pos) = if (*kind == 7 || *kind == 8) && undo.is_some() {
                tempo_lost = true;
                undo.unwrap()
            } else if *kind <= 5 && !book_moves.is_empty() {
                book_moves[pick_index(*pick, book_moves.len())]
            } else if *kind <= 8 && !shuffles.is_empty() {
                tempo_lost = true;
                shuffles[pick_index(*pick, shuffles.len())]
            } else {
                tempo_lost = true;
                &legal[pick_index(*pick, legal.len())]
            };
            // advance weechess by its own move generator
            let set = weechess_core::MoveGenerator::compute_legal_moves(&state);
            let Some(r) = set.moves().iter().find(|r| glue::read_move(&r.0) == chosen.0) else {
                return Err(format!("legal move {:?} of '{}' is not generated", chosen.0, p.fen()));
            };
            state = r.1.clone();
            last_move[p.stm as usize] = Some(chosen.0);
            p = chosen.1.clone();
        }
        loc.sample(|| json!({"end": p.fen(), "plies": case.plies.len()}));
        let _ = Col::W;
        Ok(())
    }
}

// ------------------------------------------------- the book at the UCI boundary, odd histories

/// The book answer of `go` must be legal in the engine's CURRENT position also after command
/// histories in which a position command was rejected half-way (bad move token): the position the
/// engine says it is at (`.state`) and the position its book move belongs to must be the same.
#[derive(Debug, Clone, Serialize, Deserialize)]
pub struct UciBookCase {
    /// first, accepted position command: a book line
    pub first: Vec<u16>,
    /// second command: 0 = startpos, 1.. = a FEN from the pool (late positions with counters 0 1 among them)
    pub base: u8,
    pub good_moves: Vec<u16>,
    /// 0 = no bad token (accepted), else which
    pub bad: u8,
}

const BAD_MOVE_TOKENS: [&str; 8] = ["e2e5", "a1a8", "e7e5x", "d7d5x", "0000", "e2", "h9h8", "e1g1"];

pub struct UciBook;

impl Prop for UciBook {
    type Case = UciBookCase;
    fn name(&self) -> &'static str {
        "book_answers_at_the_uci_boundary"
    }
    fn parallelism(&self, ctx: &Ctx) -> usize {
        ctx.threads.min(8)
    }
    fn max_shrink_iters(&self) -> u32 {
        40
    }
    fn strategy(&self, _: &Ctx) -> BoxedStrategy<UciBookCase> {
        (prop::collection::vec(any::<u16>(), 0..8), 0u8..6, prop::collection::vec(any::<u16>(), 0..4), prop_oneof![1 => Just(0u8), 3 => 1u8..=8])
            .prop_map(|(first, base, good_moves, bad)| UciBookCase { first, base, good_moves, bad })
            .boxed()
    }
    fn test(&self, _: &Ctx, case: &UciBookCase, loc: &mut Local) -> Result<(), String> {
        use crate::procdrv::{Line, Uci};
        use std::time::Duration;
        let (_, text1) = super::c07::resolve(&super::c07::PosSpec::Startpos(0, case.first.clone()));
        let bases = [
            "startpos".to_string(),
            "fen 8/8/4k3/8/8/4K3/4P3/8 w - - 0 1".to_string(),
            "fen rnbqkbnr/pppp1ppp/8/4p3/4P3/8/PPPP1PPP/RNBQKBNR w KQkq - 0 1".to_string(),
            "fen rnbqkbnr/pppppppp/8/8/8/8/PPPPPPPP/RNBQKBNR b KQkq - 0 1".to_string(),
            "fen r1bqkbnr/pppp1ppp/2n5/4p3/4P3/5N2/PPPP1PPP/RNBQKB1R w KQkq - 2 3".to_string(),
            "fen 8/8/8/8/8/2K5/7R/k7 w - - 0 1".to_string(),
        ];
        let base = &bases[case.base as usize % bases.len()];
        let mut p = if base == "startpos" { Pos::startpos() } else { Pos::from_fen(&base[4..]).unwrap() };
        let mut toks: Vec<String> = vec![];
        for k in case.good_moves.iter() {
            let legal = p.legal();
            if legal.is_empty() {
                break;
            }
            let (m, n) = crate::gen::choose(&p, &legal, *k).clone();
            toks.push(m.lan());
            p = n;
        }
        if case.bad > 0 {
            toks.push(BAD_MOVE_TOKENS[(case.bad as usize - 1) % BAD_MOVE_TOKENS.len()].to_string());
        }
        let text2 = if toks.is_empty() { format!("position {}", base) } else { format!("position {} moves {}", base, toks.join(" ")) };
        let mut u = Uci::spawn()?;
        let wait = Duration::from_secs(60);
        u.send(&text1);
        u.send(&text2);
        u.send("isready");
        if u.wait_out(wait, "readyok").is_none() {
            return Err(format!("no readyok after the position commands\n{}", u.transcript()));
        }
        u.send(".state");
        let got = u.wait_for(Duration::from_secs(30), |l| matches!(l, Line::Err(s) if s.trim().split(' ').count() == 6 && s.contains('/')));
        let Some(Line::Err(fen)) = got.map(|i| u.log[i].clone()) else { return Err(format!(".state printed no position\n{}", u.transcript())) };
        let Some(cur) = Pos::from_fen(fen.trim()) else { return Err(format!(".state printed an unreadable position '{}'", fen.trim())) };
        loc.eval();
        if !cur.is_legal_position() || !cur.has_legal_move() {
            loc.class("uci_book:current_position_without_moves");
            return Ok(());
        }
        let mark = u.log.len();
        u.send("go depth 1 movetime 600000");
        if u.wait_out_prefix(Duration::from_secs(120), "bestmove").is_none() {
            return Err(format!("go was not answered\n{}", u.transcript()));
        }
        let lines: Vec<String> = u.log[mark..].iter().filter_map(|l| if let Line::Out(s) = l { Some(s.clone()) } else { None }).collect();
        let best = lines.iter().find(|l| l.starts_with("bestmove ")).map(|l| l[9..].trim().to_string()).unwrap_or_default();
        let from_book = lines.iter().any(|l| l.starts_with("info string book move"));
        if !cur.legal().iter().any(|(m, _)| m.lan() == best) {
            return Err(format!(
                "after '{}' and '{}' the engine says (.state) it is at '{}', and answers go with 'bestmove {}'{}, which is not a legal move there\n{}",
                text1, text2, cur.fen(), best, if from_book { " (announced as a book move)" } else { "" }, u.transcript()
            ));
        }
        loc.class(if from_book { "uci_book:answered_from_the_book" } else { "uci_book:answered_by_search" });
        loc.class(if case.bad > 0 { "uci_book:second_position_command_had_a_bad_token" } else { "uci_book:second_position_command_accepted" });
        if from_book || case.bad > 0 {
            loc.nontrivial(&(text1.clone(), text2.clone()));
        }
        loc.sample(|| json!({"first": text1, "second": text2, "state": cur.fen(), "bestmove": best, "from_book": from_book}));
        u.send("quit");
        let _ = u.wait_exit(Duration::from_secs(30));
        Ok(())
    }
}

pub fn plan(ctx: &Ctx) -> Plan {
    let t = ctx.tier;
    Plan {
        props: vec![
            (Box::new(Recorded), 1),
            (Box::new(Variants), t.pick(400_000, 8_000_000)),
            (Box::new(Histories), t.pick(150_000, 3_000_000)),
            (Box::new(UciBook), t.pick(96, 3_000)),
        ],
        rule: "an independent PGN reader and the oracle's SAN reader replay the first ten plies of all games of all files \
               in book/ (game count cross-checked against the [Event tags) and build position -> set of played moves, \
               positions identified by placement, side, castling rights and en-passant capture availability. (1) \
               exhaustively for every such position: OpeningBook::lookup as a set of attribute tuples equals the recorded \
               set and every offered move is legal. (2) generated variants of recorded positions (strictly smaller \
               castling-right subsets, en-passant target dropped, side flipped, other halfmove/fullmove counters): the book offers nothing or only legal \
               moves, and exactly the recorded set if the variant is itself recorded. (3) generated real move histories \
               from the start position mixing book moves with tempo-losing rook/knight/king shuffles and arbitrary moves \
               (<= 25 plies; kinds: follow the book, shuffle a rook/knight/king, undo the side's previous move, any legal move), looked up on the state reached by weechess's own successors: nothing or only legal moves \
               everywhere, exactly the recorded set on recorded positions however they were reached. Non-trivial = \
               recorded positions with >= 2 moves; right-stripped variants of positions whose book moves include castling; \
               histories that reach a book placement with fewer rights.",
        assumptions: &[
            "the oracle's PGN and SAN readers are correct (every game must replay, else exit 2)",
            "en-passant capture availability is taken as pseudo-legal availability; positions where it differs from legal availability are counted (none within ten plies of the book games)",
        ],
        self_test,
        post: None,
    }
}
