//! C04 — the search always ends, obeys Stop promptly and never panics.

use super::c01::{small_family_pos, small_family_size};
use super::c03::{self, capped_depth, cancel_strategy, source_pos, sparse_source, Source, WORKERS};
use super::Plan;
use crate::glue;
use crate::oracle::rules::{Col, Kind, Pos, Status};
use crate::runner::{pick_index, Ctx, Local, Prop};
use crate::search::{self, Geometry, SearchSpec, GEOMETRIES};
use proptest::prelude::*;
use serde::{Deserialize, Serialize};
use serde_json::json;
use std::sync::mpsc;
use std::time::{Duration, Instant};
use weechess_engine::eval::Evaluator;
use weechess_engine::searcher::{ControlEvent, Searcher, StatusEvent};

/// cap on nodes searched while the cancellation flag is up: 20 x the poll interval per worker
/// (each worker polls the flag every 10 000 of its own nodes, so the true bound is below
/// 10 000 x workers; the margin is against a legitimate change of the poll interval, the
/// property only asks for "a short bounded time")
pub fn cap_for(workers: u8) -> usize {
    // VERIF_C04_CAP_FACTOR: development only (measuring how far mutants overrun)
    let f = std::env::var("VERIF_C04_CAP_FACTOR").ok().and_then(|x| x.parse::<usize>().ok()).unwrap_or(20);
    f * 10_000 * workers.max(1) as usize
}

pub const TERMINAL_FENS: &[&str] = &[
    "3R2k1/5ppp/8/8/8/8/8/4K3 b - - 0 1",      // back-rank mate
    "6rk/5Npp/8/8/8/8/8/K7 b - - 0 1",         // smothered mate
    "k7/8/1Q6/8/8/8/8/K7 b - - 0 1",           // stalemate
    "7k/5Q2/6K1/8/8/8/8/8 b - - 0 1",          // stalemate
    "rnb1kbnr/pppp1ppp/8/4p3/6Pq/5P2/PPPPP2P/RNBQKBNR w KQkq - 1 3", // fool's mate
    "r1bqkb1r/pppp1Qpp/2n2n2/4p3/2B1P3/8/PPPP1PPP/RNB1K1NR b KQkq - 0 4", // scholar's mate
    "8/8/8/8/8/5k2/5p2/5K2 w - - 0 1",         // stalemate (king hemmed in by a pawn)
    "5k2/5P2/5K2/8/8/8/8/8 b - - 0 1",         // stalemate
    "R5k1/5ppp/8/8/8/8/8/6K1 b - - 0 1",       // back-rank mate from a8
    "8/8/8/8/8/1k6/1q6/K7 w - - 0 1",          // hmm: Qb2 next to the king: mate? a1 attacked, a2 attacked, b1 attacked, Kxb2 illegal (protected) -> checkmate
    "4k3/4P3/4K3/8/8/8/8/8 b - - 0 1",         // stalemate
];

pub const LOW_MOBILITY: &[&str] = &[
    "4k3/1p1p1p1p/1P1P1P1P/8/8/1p1p1p1p/1P1P1P1P/4K3 w - - 0 1",
    "4k3/p1p1p1p1/P1P1P1P1/8/8/p1p1p1p1/P1P1P1P1/4K3 w - - 0 1",
    "4k3/8/8/p1p1p1p1/PpPpPpPp/1P1P1P1P/8/4K3 w - - 0 1",
    "4k3/8/8/1p1p1p1p/pPpPpPpP/P1P1P1P1/8/4K3 w - - 0 1",
    "4k3/8/p1p1p1p1/PpPpPpPp/1P1P1P1P/8/8/4K3 w - - 0 1",
    "4kb2/1p1p1p1p/1P1P1P1P/8/8/1p1p1p1p/1P1P1P1P/2B1K3 w - - 0 1",
    "k7/8/8/p1p1p1p1/PpPpPpPp/1P1P1P1P/8/7K b - - 0 1",
];

#[derive(Debug, Clone, Serialize, Deserialize)]
pub enum Root {
    /// explicit position (regression corpus; not generated)
    Fen(String),
    Sparse(Source),
    /// (list pick | small-family search start)
    Terminal(u16, u32),
    /// (family index, white king pick, black king pick, black to move)
    LowMobility(u8, u16, u16, bool),
    /// capture-rich positions (several queens, many pieces en prise) where the quiescence search
    /// explodes: a short game from one of the promotion-heavy start positions
    Explosive(u8, Vec<u16>),
    /// 5-9 queens of the side to move on an open board against a walled-in king: well over a
    /// hundred moves in one position (the record is 218). (queens, square picks, black to move)
    Crowded(u8, Vec<u16>, bool),
}

pub const EXPLOSIVE_STARTS: [u16; 5] = [27, 28, 29, 44, 3];

pub fn root_pos(r: &Root) -> Option<Pos> {
    match r {
        Root::Fen(f) => Pos::from_fen(f),
        Root::Sparse(s) => source_pos(s),
        Root::Terminal(pick, start) => {
            if pick % 2 == 0 {
                let f = TERMINAL_FENS[pick_index(*pick, TERMINAL_FENS.len())];
                let p = Pos::from_fen(f).unwrap();
                assert!(p.is_legal_position() && p.status() != Status::Normal, "not terminal: {}", f);
                Some(p)
            } else {
                // the next terminal position of the K+X v K families after a generated index
                let n = small_family_size();
                let mut i = (*start as u64 * 1223) % n;
                for _ in 0..20_000 {
                    if let Some(p) = small_family_pos(i) {
                        if p.status() != Status::Normal {
                            return Some(p);
                        }
                    }
                    i = (i + 1) % n;
                }
                None
            }
        }
        Root::Crowded(nq, picks, black) => {
            // Black: Kh8 behind Bg8, g7, h7 (no line reaches it); White: Ka1 and the queens
            let mut p = Pos::empty(Col::W);
            p.b[63] = Some((Col::B, Kind::K));
            p.b[62] = Some((Col::B, Kind::B));
            p.b[54] = Some((Col::B, Kind::P));
            p.b[55] = Some((Col::B, Kind::P));
            p.b[0] = Some((Col::W, Kind::K));
            let mut placed = 0;
            for pick in picks.iter() {
                if placed >= *nq {
                    break;
                }
                let free: Vec<usize> = (0..64).filter(|s| p.b[*s].is_none()).collect();
                let s = free[pick_index(*pick, free.len())];
                p.b[s] = Some((Col::W, Kind::Q));
                if p.is_legal_position() {
                    placed += 1;
                } else {
                    p.b[s] = None;
                }
            }
            Some(if *black { p.mirror() } else { p })
        }
        Root::Explosive(start, picks) => {
            let case = crate::gen::PlayCase { start: EXPLOSIVE_STARTS[*start as usize % EXPLOSIVE_STARTS.len()], picks: picks.clone() };
            Some(crate::gen::play(super::c01::starts(), &case).positions.pop().unwrap())
        }
        Root::LowMobility(fam, wk, bk, black) => {
            let base = Pos::from_fen(LOW_MOBILITY[*fam as usize % LOW_MOBILITY.len()]).unwrap();
            // move the kings inside their own regions (flood fill over unattacked empty squares)
            let mut p = base.clone();
            let region = |p: &Pos, c: Col| -> Vec<usize> {
                let k = p.king(c).unwrap();
                let mut q = p.clone();
                q.b[k] = None;
                let att = q.attack_set(c.opp(), false);
                let mut seen = vec![k];
                let mut i = 0;
                while i < seen.len() {
                    let s = seen[i];
                    i += 1;
                    for d in crate::oracle::rules::KING_D {
                        if let Some(t) = crate::oracle::rules::off(s, d) {
                            if q.b[t].is_none() && att & (1 << t) == 0 && !seen.contains(&t) {
                                seen.push(t);
                            }
                        }
                    }
                }
                seen.sort();
                seen
            };
            let rw = region(&base, Col::W);
            let rb = region(&base, Col::B);
            let (ow, ob) = (base.king(Col::W).unwrap(), base.king(Col::B).unwrap());
            p.b[ow] = None;
            p.b[ob] = None;
            let nw = rw[pick_index(*wk, rw.len())];
            let nb = rb[pick_index(*bk, rb.len())];
            if nw == nb {
                return Some(base);
            }
            p.b[nw] = Some((Col::W, Kind::K));
            p.b[nb] = Some((Col::B, Kind::K));
            p.stm = if *black { Col::B } else { Col::W };
            if p.is_legal_position() { Some(p) } else { Some(base) }
        }
    }
}

#[derive(Debug, Clone, Serialize, Deserialize)]
pub struct SyncCase {
    pub root: Root,
    pub hasher_seed: u64,
    pub geometry: u8,
    /// 0 = no depth limit
    pub depth: u16,
    pub seed: u64,
    pub workers: u8,
    pub sched: Option<u64>,
    pub cancel: Option<u32>,
    /// follow-up search on the returned artifact
    pub follow: Option<(Source, u8, u64)>,
    /// searches run to completion on the same memory BEFORE the judged one (depth 1-6, one worker):
    /// (on the judged root itself?, otherwise this position, depth, seed)
    #[serde(default)]
    pub warm: Vec<(bool, Source, u8, u64)>,
}

pub struct TerminationSync;

impl Prop for TerminationSync {
    type Case = SyncCase;
    fn name(&self) -> &'static str {
        "termination_node_clock"
    }
    fn max_shrink_iters(&self) -> u32 {
        60
    }
    fn max_shrink_time_ms(&self) -> u32 {
        60_000
    }
    fn strategy(&self, _: &Ctx) -> BoxedStrategy<SyncCase> {
        let root = prop_oneof![
            4 => sparse_source().prop_map(Root::Sparse),
            2 => (any::<u16>(), any::<u32>()).prop_map(|(a, b)| Root::Terminal(a, b)),
            3 => (0u8..(LOW_MOBILITY.len() as u8), any::<u16>(), any::<u16>(), any::<bool>()).prop_map(|(a, b, c, d)| Root::LowMobility(a, b, c, d)),
            2 => (0u8..5, prop::collection::vec(any::<u16>(), 0..14)).prop_map(|(a, b)| Root::Explosive(a, b)),
            1 => (5u8..=9, prop::collection::vec(any::<u16>(), 12), any::<bool>()).prop_map(|(a, b, c)| Root::Crowded(a, b, c)),
        ];
        (
            root,
            any::<u64>(),
            0u8..(GEOMETRIES.len() as u8),
            prop_oneof![3 => Just(0u16), 4 => 1u16..=6, 1 => 50u16..5000],
            any::<u64>(),
            prop_oneof![6 => Just(0u8), 2 => Just(1u8), 1 => Just(2u8), 2 => Just(3u8), 1 => Just(4u8), 1 => Just(5u8)],
            any::<u64>(),
            cancel_strategy(),
            proptest::option::weighted(0.4, (sparse_source(), 1u8..=3, any::<u64>())),
            prop_oneof![
                5 => Just(vec![]),
                5 => prop::collection::vec((prop::bool::weighted(0.75), sparse_source(), 1u8..=6, any::<u64>()), 1..=2),
            ],
        )
            .prop_map(|(root, hasher_seed, geometry, depth, seed, w, sched, cancel, follow, warm)| {
                let workers = WORKERS[w as usize];
                SyncCase { root, hasher_seed, geometry, depth, seed, workers, sched: if workers > 1 && sched % 8 != 0 { Some(sched) } else { None }, cancel, follow, warm }
            })
            .boxed()
    }
    fn test(&self, _: &Ctx, case: &SyncCase, loc: &mut Local) -> Result<(), String> {
        let Some(pos) = root_pos(&case.root) else {
            loc.class("no_root");
            return Ok(());
        };
        let terminal = !pos.has_legal_move();
        let low = matches!(case.root, Root::LowMobility(..)) || matches!(&case.root, Root::Fen(f) if LOW_MOBILITY.contains(&f.as_str()));
        // depth: none / small / huge (huge only where iterations are tiny)
        let mut depth: Option<u8> = match case.depth {
            0 => None,
            d if d <= 6 => Some(capped_depth(&pos, d as u8, case.workers)),
            d => {
                if low { Some((d % 100) as u8 + 50) } else { Some(capped_depth(&pos, (d % 6) as u8 + 1, case.workers)) }
            }
        };
        let mut cancel = case.cancel;
        if depth.is_none() && cancel.is_none() && !terminal {
            // an unlimited search needs a Stop to end
            cancel = Some(((case.seed % 30_000) as u32).max(1));
        }
        if matches!(case.root, Root::Explosive(..) | Root::Crowded(..)) && cancel.is_none() {
            // capture-rich roots: always with a Stop (their iterations can take very long)
            cancel = Some(((case.seed % 50_000) as u32).max(1));
        }
        let has_piece = pos.b.iter().flatten().any(|x| x.1 != Kind::P && x.1 != Kind::K);
        if low && has_piece && depth.map(|d| d > 6).unwrap_or(false) {
            // a free piece makes the state space large: keep the depth small there
            depth = Some(capped_depth(&pos, (case.depth % 6) as u8 + 1, case.workers));
        }
        // very deep limits are affordable only for a single unscheduled worker
        let (workers, sched) = if depth.map(|d| d > 6).unwrap_or(false) { (1u8, None) } else { (case.workers, case.sched) };
        // ... and only with a table large enough to collapse the repeated states (with a tiny
        // table a depth-100 search is exponential, which is nobody's defect)
        let geometry: Geometry = if depth.map(|d| d > 6).unwrap_or(false) { GEOMETRIES[0] } else { GEOMETRIES[case.geometry as usize % GEOMETRIES.len()] };
        let spec = SearchSpec { depth, seed: case.seed, workers, sched_seed: sched, cancel_after: cancel };
        let cap = cap_for(workers);
        let mut artifact = search::new_artifact(case.hasher_seed, geometry);
        // Stop has to be obeyed on a memory that earlier searches (of this very root, too) have filled
        let mut warmed = String::new();
        if !matches!(case.root, Root::Explosive(..) | Root::Crowded(..)) {
            for (same, src, d, wseed) in case.warm.iter() {
                let wp = if *same { Some(pos.clone()) } else { source_pos(src) };
                let Some(wp) = wp else { continue };
                let wd = if low && *same { *d } else { capped_depth(&wp, *d, 1) };
                let wspec = SearchSpec { depth: Some(wd), seed: *wseed, workers: 1, sched_seed: None, cancel_after: None };
                let (wout, wback) = search::run(&wp, &wspec, artifact, usize::MAX);
                loc.eval();
                if let Some(p) = &wout.panic {
                    return Err(format!("warm-up search of '{}' ({:?}) panicked: {}", wp.fen(), wspec, p));
                }
                let Some(a) = wback else { return Err(format!("warm-up search of '{}' ({:?}) returned no artifact", wp.fen(), wspec)) };
                artifact = a;
                warmed.push_str(&format!(" after a depth-{} search of {}", wd, if *same { "the same position".to_string() } else { format!("'{}'", wp.fen()) }));
                loc.class(if *same { "warm_memory_same_root" } else { "warm_memory_other_root" });
            }
        }
        let (out, back) = search::run(&pos, &spec, artifact, cap);
        loc.eval();
        if std::env::var("VERIF_C04_TRACE").is_ok() {
            eprintln!("trace: '{}' {:?}{} total {} after_cancel {} progress {:?}", pos.fen(), spec, warmed, out.nodes_total, out.nodes_after_cancel, out.progress.iter().map(|p| (p.0, p.1)).collect::<Vec<_>>());
        }
        let ctxs = format!("search of '{}' ({:?}, table {}x{}){}", pos.fen(), spec, geometry.tables, geometry.buckets, warmed);
        if let Some(p) = &out.panic {
            if p.contains("VERIF_OVERRUN") {
                return Err(format!("{}: more than {} nodes were searched after the Stop (cancellation flag raised at node {:?}); the search does not obey Stop", ctxs, cap, cancel));
            }
            if p.contains("VERIF_TIMEOUT") {
                return Err(format!("{}: the search has not returned and has searched no node for {:?}; it neither finished nor obeyed the Stop raised at node {:?}", ctxs, search::stall_limit(), cancel));
            }
            return Err(format!("{} panicked: {}", ctxs, p));
        }
        if out.nodes_after_cancel > cap {
            return Err(format!("{}: {} nodes searched after the Stop, cap {}", ctxs, out.nodes_after_cancel, cap));
        }
        if terminal {
            loc.class("terminal_root");
            loc.nontrivial(&(pos.fen4(), format!("{:?}", spec)));
            if !out.best.is_empty() {
                return Err(format!("{}: the root has no legal move but a best line {:?} was reported", ctxs, out.best[0].line.iter().map(|m| m.lan()).collect::<Vec<_>>()));
            }
        } else {
            let saturated = back.as_ref().map(|a| c03::usage(a) > 0.25).unwrap_or(true);
            c03::judge(&pos, &spec, &out, saturated)?;
        }
        // classification
        if out.cancelled {
            loc.class("cancelled");
            let before_first = out.nodes_total == out.nodes_after_cancel;
            let last_iter_nodes = out.progress.last().map(|p| p.1).unwrap_or(0);
            let _ = last_iter_nodes;
            if !before_first && out.nodes_after_cancel > 0 {
                loc.class("cancel_landed_inside_search");
                loc.nontrivial(&(pos.fen4(), format!("{:?}", spec)));
            }
        }
        if matches!(case.root, Root::Explosive(..)) {
            loc.class("explosive_root");
        }
        if matches!(case.root, Root::Crowded(..)) {
            let n = pos.pseudo().len();
            loc.class(if n > 128 { "crowded_root_more_than_128_pseudo_legal_moves" } else { "crowded_root" });
            loc.nontrivial(&(pos.fen4(), format!("{:?}", spec)));
        }
        if low {
            loc.class("low_mobility_root");
            // iterations that stay below the poll interval are the D8 region
            let small_iters = out.progress.windows(2).all(|w| w[1].1 - w[0].1 < 10_000);
            if small_iters && out.progress.len() >= 2 {
                loc.class("low_mobility_all_iterations_below_poll_interval");
                loc.nontrivial(&(pos.fen4(), format!("{:?}", spec)));
            }
        }
        loc.class(match spec.workers { 1 => "workers_1", 2..=4 => "workers_2_4", 8 => "workers_8", _ => "workers_32" });
        loc.class(if depth.is_none() { "depth_unlimited" } else if depth.unwrap() > 6 { "depth_huge" } else { "depth_small" });
        // (6) the returned artifact seeds the next search
        if let (Some(a), Some((src, d, seed))) = (back, &case.follow) {
            if let Some(p2) = source_pos(src) {
                if p2.has_legal_move() {
                    let spec2 = SearchSpec { depth: Some(capped_depth(&p2, *d, 1)), seed: *seed, workers: 1, sched_seed: None, cancel_after: None };
                    let (out2, back2) = search::run(&p2, &spec2, a, usize::MAX);
                    loc.eval();
                    loc.class("follow_up_search");
                    let sat = back2.as_ref().map(|a| c03::usage(a) > 0.25).unwrap_or(true);
                    c03::judge(&p2, &spec2, &out2, sat).map_err(|e| format!("follow-up on the artifact returned by {}: {}", ctxs, e))?;
                }
            }
        }
        loc.sample(|| json!({"root": pos.fen(), "spec": format!("{:?}", spec), "nodes": out.nodes_total, "nodes_after_stop": out.nodes_after_cancel, "reports": out.best.len()}));
        Ok(())
    }
}

// ------------------------------------------------- very deep depth limits, in a process of their own

/// On positions where only the kings can shuffle, every iteration is tiny and a depth limit in the
/// thousands is reached within seconds. The search recurses once per ply; whether the thread
/// stacks of the real configuration (std::thread default for the search thread, rayon's global pool
/// for the workers) hold that can only be seen in a process that may die: a stack overflow aborts.
#[derive(Debug, Clone, Serialize, Deserialize)]
pub struct DeepCase {
    pub fam: u8,
    pub wk: u16,
    pub bk: u16,
    pub black: bool,
    pub depth: u16,
    pub seed: u64,
    /// one worker in every iteration (hook entry point) instead of the public entry point
    #[serde(default)]
    pub single_worker: bool,
}

/// child: run the public entry point to the end, print a summary
pub fn deep_child(arg: &str) -> i32 {
    let v: serde_json::Value = match serde_json::from_str(arg) {
        Ok(v) => v,
        Err(_) => return 2,
    };
    let Some(pos) = v["fen"].as_str().and_then(Pos::from_fen) else { return 2 };
    let depth = v["depth"].as_u64().unwrap_or(1) as usize;
    let seed = v["seed"].as_u64().unwrap_or(0);
    let state = glue::state_direct(&pos);
    let mut reports = 0usize;
    let mut last_depth = 0u32;
    let mut last_line: Vec<String> = vec![];
    let joined;
    if v["single_worker"].as_bool().unwrap_or(false) {
        // one worker in every iteration (deterministic: whether a line is really followed to the
        // full depth does not depend on what 31 other workers happened to store first); the
        // search runs on an ordinary spawned thread and rayon's global pool, like the real one
        let h = std::thread::spawn(move || {
            let mut events: Vec<StatusEvent> = vec![];
            let evaluator = Evaluator::default();
            let _ = weechess_engine::searcher::verif::analyze_sync(state, &evaluator, seed, Some(depth), None, Some(1), None, usize::MAX, &mut |e| events.push(e));
            events
        });
        match h.join() {
            Ok(events) => {
                joined = true;
                for e in events {
                    match e {
                        StatusEvent::BestMove { line, .. } => {
                            reports += 1;
                            last_line = line.iter().take(1).map(|m| glue::read_move(m).lan()).collect();
                        }
                        StatusEvent::Progress { depth, .. } => last_depth = depth,
                        _ => {}
                    }
                }
            }
            Err(_) => joined = false,
        }
    } else {
        let (handle, control, rx) = Searcher::new().analyze(state, seed, Evaluator::default(), Some(depth), None);
        for e in rx.iter() {
            match e {
                StatusEvent::BestMove { line, .. } => {
                    reports += 1;
                    last_line = line.iter().take(1).map(|m| glue::read_move(m).lan()).collect();
                }
                StatusEvent::Progress { depth, .. } => last_depth = depth,
                _ => {}
            }
        }
        joined = handle.join().is_ok();
        drop(control);
    }
    println!("DEEP-OK reports={} last_depth={} first={} joined={}", reports, last_depth, last_line.join(""), joined);
    0
}

pub struct DeepSearchProcess;

impl Prop for DeepSearchProcess {
    type Case = DeepCase;
    fn name(&self) -> &'static str {
        "deep_search_process"
    }
    fn parallelism(&self, ctx: &Ctx) -> usize {
        ctx.threads.min(6)
    }
    fn max_shrink_iters(&self) -> u32 {
        12
    }
    fn strategy(&self, _: &Ctx) -> BoxedStrategy<DeepCase> {
        (0u8..(LOW_MOBILITY.len() as u8), any::<u16>(), any::<u16>(), any::<bool>(), prop_oneof![1 => 150u16..3000, 4 => 3000u16..6000], any::<u64>(), prop::bool::weighted(0.5))
            .prop_map(|(fam, wk, bk, black, depth, seed, single_worker)| DeepCase { fam, wk, bk, black, depth, seed, single_worker })
            .boxed()
    }
    fn test(&self, _: &Ctx, case: &DeepCase, loc: &mut Local) -> Result<(), String> {
        let Some(pos) = root_pos(&Root::LowMobility(case.fam, case.wk, case.bk, case.black)) else { return Ok(()) };
        if !pos.has_legal_move() {
            return Ok(());
        }
        // a free piece makes the state space large (iterations are no longer tiny): kings and pawns only
        if pos.b.iter().flatten().any(|x| x.1 != Kind::P && x.1 != Kind::K) {
            loc.class("deep:skipped_root_with_a_piece");
            return Ok(());
        }
        let exe = std::env::current_exe().map_err(|e| e.to_string())?;
        let arg = json!({"fen": pos.fen(), "depth": case.depth, "seed": case.seed, "single_worker": case.single_worker}).to_string();
        let mut child = std::process::Command::new(exe)
            .args(["C04", "--deep-child", &arg])
            .stdin(std::process::Stdio::null())
            .stdout(std::process::Stdio::piped())
            .stderr(std::process::Stdio::piped())
            .spawn()
            .unwrap_or_else(|e| crate::runner::harness_fail(&format!("cannot spawn the deep-search child: {}", e)));
        let t0 = Instant::now();
        let status = loop {
            match child.try_wait() {
                Ok(Some(st)) => break st,
                Ok(None) => {
                    if t0.elapsed() > Duration::from_secs(120) {
                        // where the kings have room the iterations are not tiny any more and a depth
                        // limit in the thousands is simply expensive: nothing to conclude
                        let _ = child.kill();
                        let _ = child.wait();
                        loc.class("deep:inconclusive_not_finished_in_120s");
                        return Ok(());
                    }
                    std::thread::sleep(Duration::from_millis(20));
                }
                Err(e) => crate::runner::harness_fail(&format!("wait failed: {}", e)),
            }
        };
        let mut out = String::new();
        let mut err = String::new();
        use std::io::Read;
        let _ = child.stdout.take().map(|mut o| o.read_to_string(&mut out));
        let _ = child.stderr.take().map(|mut o| o.read_to_string(&mut err));
        loc.eval();
        if !status.success() {
            let tail: String = err.lines().rev().take(4).collect::<Vec<_>>().into_iter().rev().collect::<Vec<_>>().join(" | ");
            return Err(format!(
                "a process searching '{}' with depth limit {} (seed {}, {}) died with {:?} instead of finishing the search: {}",
                pos.fen(), case.depth, case.seed, if case.single_worker { "one worker per iteration" } else { "public entry point" }, status, tail
            ));
        }
        let line = out.lines().find(|l| l.starts_with("DEEP-OK")).ok_or_else(|| format!("the child printed no summary: {}", out))?;
        let field = |k: &str| line.split(' ').find_map(|t| t.strip_prefix(k)).unwrap_or("").to_string();
        if field("joined=") != "true" {
            return Err(format!("depth-{} search of '{}': the search thread panicked ({})", case.depth, pos.fen(), line));
        }
        if field("reports=") == "0" {
            return Err(format!("depth-{} search of '{}' ended without reporting any line ({})", case.depth, pos.fen(), line));
        }
        let first = field("first=");
        if !pos.legal().iter().any(|(m, _)| m.lan() == first) {
            return Err(format!("depth-{} search of '{}' reported '{}', which is not a legal move there", case.depth, pos.fen(), first));
        }
        loc.nontrivial(&(pos.fen4(), case.depth, case.single_worker));
        loc.class(if case.single_worker { "deep:one_worker_per_iteration" } else { "deep:public_entry_point" });
        loc.class(if case.depth >= 3000 { "deep:limit_3000_and_more" } else if case.depth >= 1000 { "deep:limit_1000_2999" } else { "deep:limit_below_1000" });
        loc.sample(|| json!({"fen": pos.fen(), "depth_limit": case.depth, "child": line, "wall_ms": t0.elapsed().as_millis() as u64}));
        Ok(())
    }
}

// ---------------------------------------------------------- real threads, public entry point

#[derive(Debug, Clone, Copy, Serialize, Deserialize, PartialEq, Eq)]
pub enum Act {
    StopNow,
    StopAfterFirstEvent,
    StopAfterCompletion,
    StopTwice,
    DropReceiver,
    Sleep(u8),
}

#[derive(Debug, Clone, Serialize, Deserialize)]
pub struct ThreadCase {
    pub root: Root,
    /// 0 = unlimited (a Stop is appended if the script has none)
    pub depth: u8,
    pub seed: u64,
    pub fresh_memory: bool,
    pub hasher_seed: u64,
    pub acts: Vec<Act>,
}

pub struct TerminationThreads {
    pub watchdog: Duration,
}

impl Prop for TerminationThreads {
    type Case = ThreadCase;
    fn name(&self) -> &'static str {
        "termination_threads"
    }
    fn parallelism(&self, _: &Ctx) -> usize {
        4
    }
    fn max_shrink_iters(&self) -> u32 {
        // a failing script usually means a search thread that never returns: every further
        // attempt would leak another spinning thread and wait for another watchdog
        0
    }
    fn strategy(&self, _: &Ctx) -> BoxedStrategy<ThreadCase> {
        let root = prop_oneof![
            4 => sparse_source().prop_map(Root::Sparse),
            2 => (any::<u16>(), any::<u32>()).prop_map(|(a, b)| Root::Terminal(a, b)),
            2 => (0u8..(LOW_MOBILITY.len() as u8), any::<u16>(), any::<u16>(), any::<bool>()).prop_map(|(a, b, c, d)| Root::LowMobility(a, b, c, d)),
        ];
        let act = prop_oneof![
            3 => Just(Act::StopNow),
            2 => Just(Act::StopAfterFirstEvent),
            2 => Just(Act::StopAfterCompletion),
            1 => Just(Act::StopTwice),
            2 => Just(Act::DropReceiver),
            2 => (1u8..40).prop_map(Act::Sleep),
        ];
        (root, 0u8..=4, any::<u64>(), proptest::bool::weighted(0.08), any::<u64>(), prop::collection::vec(act, 0..4))
            .prop_map(|(root, depth, seed, fresh_memory, hasher_seed, acts)| ThreadCase { root, depth, seed, fresh_memory, hasher_seed, acts })
            .boxed()
    }
    fn test(&self, _: &Ctx, case: &ThreadCase, loc: &mut Local) -> Result<(), String> {
        let Some(pos) = root_pos(&case.root) else { return Ok(()) };
        let terminal = !pos.has_legal_move();
        let depth = if case.depth == 0 { None } else { Some(capped_depth(&pos, case.depth, 32) as usize) };
        let mut acts = case.acts.clone();
        let has_stop = acts.iter().any(|a| matches!(a, Act::StopNow | Act::StopAfterFirstEvent | Act::StopTwice));
        if depth.is_none() && !has_stop {
            acts.push(Act::StopNow);
        }
        // "after completion" only makes sense for a search that completes by itself
        if depth.is_none() {
            acts.retain(|a| *a != Act::StopAfterCompletion);
        }
        // a terminal root with no previous memory is a path of its own in analyze_iterative (seeded change C04h):
        // a third of the terminal roots start from the engine's own fresh memory
        let fresh_memory = case.fresh_memory || (terminal && case.seed % 3 == 0);
        let artifact = if fresh_memory { None } else { Some(search::new_artifact(case.hasher_seed, Geometry { tables: 8, buckets: 1024 })) };
        let state = glue::state_direct(&pos);
        let t0 = Instant::now();
        let (handle, tx, rx) = Searcher::new().analyze(state, case.seed, Evaluator::default(), depth, artifact);
        let mut rx = Some(rx);
        let mut lines: Vec<Vec<crate::oracle::rules::Mv>> = vec![];
        let mut collect = |e: StatusEvent, lines: &mut Vec<Vec<crate::oracle::rules::Mv>>| {
            if let StatusEvent::BestMove { line, .. } = e {
                lines.push(line.iter().map(glue::read_move).collect());
            }
        };
        let ctxs = format!("Searcher::analyze('{}', depth {:?}, seed {}) with script {:?}", pos.fen(), depth, case.seed, acts);
        for a in acts.iter() {
            match a {
                Act::StopNow => {
                    let _ = tx.send(ControlEvent::Stop);
                }
                Act::StopTwice => {
                    let _ = tx.send(ControlEvent::Stop);
                    let _ = tx.send(ControlEvent::Stop);
                }
                Act::StopAfterFirstEvent => {
                    if let Some(r) = &rx {
                        // a terminal root never sends an event: bounded wait
                        if let Ok(e) = r.recv_timeout(Duration::from_secs(if terminal { 1 } else { 20 })) {
                            collect(e, &mut lines);
                        }
                    }
                    let _ = tx.send(ControlEvent::Stop);
                }
                Act::StopAfterCompletion => {
                    if let Some(r) = &rx {
                        // the channel closes when the search thread is done
                        let deadline = Instant::now() + self.watchdog;
                        loop {
                            match r.recv_timeout(deadline.saturating_duration_since(Instant::now())) {
                                Ok(e) => collect(e, &mut lines),
                                Err(mpsc::RecvTimeoutError::Disconnected) => break,
                                Err(mpsc::RecvTimeoutError::Timeout) => {
                                    return Err(format!("{}: the depth-limited search did not finish within {:?}", ctxs, self.watchdog));
                                }
                            }
                        }
                    }
                    let _ = tx.send(ControlEvent::Stop);
                }
                Act::DropReceiver => {
                    rx = None;
                }
                Act::Sleep(ms) => std::thread::sleep(Duration::from_millis(*ms as u64)),
            }
        }
        // join with a watchdog (typical: well under a second)
        let (jtx, jrx) = mpsc::channel();
        std::thread::spawn(move || {
            let r = handle.join();
            let _ = jtx.send(r.ok());
        });
        let joined = jrx.recv_timeout(self.watchdog);
        let elapsed = t0.elapsed();
        // the caller keeps `tx` until here (a caller holding the control sender must not hang)
        drop(tx);
        let returned = match joined {
            Err(_) => {
                return Err(format!("{}: the search thread had not returned its artifact {:?} after the last request (join watchdog)", ctxs, self.watchdog));
            }
            Ok(None) => return Err(format!("{}: join() reports a panic in the search threads", ctxs)),
            Ok(Some(a)) => a,
        };
        if let Some(r) = &rx {
            while let Ok(e) = r.try_recv() {
                collect(e, &mut lines);
            }
        }
        for l in lines.iter() {
            if terminal {
                return Err(format!("{}: a best line was reported for a root without legal moves", ctxs));
            }
            search::check_line(&pos, l).map_err(|e| format!("{}: {}", ctxs, e))?;
        }
        // "the returned artifact can seed the next search": a depth-limited follow-up search of a position
        // with legal moves, seeded with what the thread returned, ends by itself, does not panic and reports a legal line
        {
            const FOLLOW: [&str; 4] = [
                "rnbqkbnr/pppppppp/8/8/8/8/PPPPPPPP/RNBQKBNR w KQkq - 0 1",
                "8/8/8/4k3/8/8/8/R3K3 w Q - 0 1",
                "r3k2r/p1ppqpb1/bn2pnp1/3PN3/1p2P3/2N2Q1p/PPPBBPPP/R3K2R w KQkq - 0 1",
                "8/2p5/3p4/KP5r/1R3p1k/8/4P1P1/8 b - - 0 1",
            ];
            let fpos = if terminal || case.seed % 2 == 0 { crate::oracle::rules::Pos::from_fen(FOLLOW[(case.seed >> 8) as usize % 4]).unwrap() } else { pos.clone() };
            let fdepth = 1 + (case.seed >> 16) as usize % 2;
            let fctx = format!("{}; then Searcher::analyze('{}', depth {}) seeded with the returned artifact", ctxs, fpos.fen(), fdepth);
            let (h2, tx2, rx2) = Searcher::new().analyze(glue::state_direct(&fpos), case.seed ^ 1, Evaluator::default(), Some(fdepth), Some(returned));
            let deadline = Instant::now() + self.watchdog;
            let mut flines = vec![];
            loop {
                match rx2.recv_timeout(deadline.saturating_duration_since(Instant::now())) {
                    Ok(e) => collect(e, &mut flines),
                    Err(mpsc::RecvTimeoutError::Disconnected) => break,
                    Err(mpsc::RecvTimeoutError::Timeout) => {
                        return Err(format!("{}: the seeded depth-limited search did not finish within {:?}", fctx, self.watchdog));
                    }
                }
            }
            let (jtx2, jrx2) = mpsc::channel();
            std::thread::spawn(move || {
                let _ = jtx2.send(h2.join().is_ok());
            });
            match jrx2.recv_timeout(self.watchdog) {
                Err(_) => return Err(format!("{}: the seeded search thread did not return (join watchdog {:?})", fctx, self.watchdog)),
                Ok(false) => return Err(format!("{}: join() reports a panic in the seeded search", fctx)),
                Ok(true) => {}
            }
            drop(tx2);
            if flines.is_empty() {
                return Err(format!("{}: the seeded search finished without reporting a move", fctx));
            }
            for l in flines.iter() {
                search::check_line(&fpos, l).map_err(|e| format!("{}: {}", fctx, e))?;
            }
            loc.class("follow_up_search_on_returned_artifact");
            if terminal && fresh_memory {
                loc.class("follow_up_after_terminal_root_with_fresh_memory");
            }
        }
        loc.eval();
        loc.nontrivial(&(pos.fen4(), format!("{:?}", case.acts), case.depth));
        if terminal {
            loc.class("terminal_root");
        }
        if rx.is_none() {
            loc.class("receiver_dropped");
        }
        if fresh_memory {
            loc.class("fresh_1GiB_memory");
        }
        loc.class(if elapsed < Duration::from_millis(100) { "joined_under_100ms" } else if elapsed < Duration::from_secs(2) { "joined_under_2s" } else { "joined_slowly" });
        loc.sample(|| json!({"root": pos.fen(), "depth": depth, "script": format!("{:?}", acts), "elapsed_ms": elapsed.as_millis() as u64}));
        Ok(())
    }
}

pub fn plan(ctx: &Ctx) -> Plan {
    let t = ctx.tier;
    Plan {
        props: vec![
            (Box::new(TerminationSync), t.pick(4_000, 150_000)),
            (Box::new(TerminationThreads { watchdog: Duration::from_secs(60) }), t.pick(300, 6_000)),
            (Box::new(DeepSearchProcess), t.pick(30, 600)),
        ],
        rule: "node-clock part (deterministic): roots from sparse generated positions, terminal positions (hand list + \
               the terminal positions of the K+X v K families) and a low-mobility family (locked pawn walls confining both \
               kings, kings moved inside their regions) where every iteration costs fewer nodes than the poll interval, and \
               capture-rich positions (short games from the promotion-heavy start positions) where the quiescence search \
               explodes, and positions with 5-9 queens of the side to move (more than 128 moves in one position); the node clock counts quiescence nodes too; \
               depth none / 1-6 / 50-150 (single worker); 1-32 workers (>1 under the baton scheduler); the cancellation flag raised by a \
               node clock at N in {0,1,small,9999,10000,10001,20000,large}. Oracle: no panic; while the flag is up at most \
               20 x 10000 x workers further nodes (the hook turns an overrun into a finite failure); a terminal root \
               reports no move and returns; other roots satisfy C03's oracle; the returned artifact seeds a further search \
               that satisfies C03's oracle. Real-thread part (public Searcher::analyze): scripts over {Stop now, Stop \
               after first event, Stop after completion, Stop twice, drop receiver, sleep}; join() must return Ok within a \
               60 s watchdog (typical < 0.1 s) while the caller still holds the control sender. Process part \
               (deep_search_process): kings-and-pawns roots of the low-mobility family searched through the public entry \
               point with depth limits 150-5999 in a child process of the harness (ordinary spawned thread, rayon's \
               global pool; every second case with one worker in every iteration through the hook, where the outcome is \
               deterministic; a child that has not finished after 120 s is inconclusive and counted): the child must exit normally, the search thread must join, at least one line must have been \
               reported and its first move must be legal. Non-trivial = distinct \
               cases whose Stop landed strictly inside the search, terminal roots, low-mobility roots whose iterations \
               all stay below the poll interval, and every real-thread script.",
        assumptions: &[
            "liveness of the synchronous path is decided in nodes (deterministic); only the thread/channel wrapper relies on a wall-clock watchdog (>= 100x typical)",
            "a synchronous search that has not returned and whose node counter has not moved for 10 s is reported as stuck: the only wall-clock oracle on that path, needed for loops that search no nodes (a running search counts a node about every microsecond)",
        ],
        self_test: super::oracle_self_test,
        post: None,
    }
}
