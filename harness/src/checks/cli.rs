//! CLI halves of C01 (perft) and C19 (evaluate), through the real binary.

use super::c01::starts;
use crate::gen::{self, PlayCase};
use crate::procdrv;
use crate::runner::{Ctx, Local, Prop};
use proptest::prelude::*;
use serde::{Deserialize, Serialize};
use serde_json::json;
use std::time::Duration;

#[derive(Debug, Clone, Serialize, Deserialize)]
pub struct PerftCliCase {
    pub game: PlayCase,
    pub depth: u8,
}

pub struct PerftCli;

impl Prop for PerftCli {
    type Case = PerftCliCase;
    fn name(&self) -> &'static str {
        "perft_cli"
    }
    fn strategy(&self, _: &Ctx) -> BoxedStrategy<PerftCliCase> {
        (gen::play_strategy(30), 1u8..=3)
            .prop_map(|(game, depth)| PerftCliCase { game, depth })
            .boxed()
    }
    fn max_shrink_iters(&self) -> u32 {
        60
    }
    fn test(&self, _: &Ctx, case: &PerftCliCase, loc: &mut Local) -> Result<(), String> {
        let played = gen::play(starts(), &case.game);
        let p = played.positions.last().unwrap();
        // depth 1-3 as generated; every third case as deep as a node budget allows (sparse positions 5-7)
        let depth = if case.game.picks.len() % 3 == 0 { super::c01::adaptive_depth(p, 150_000.0) } else { case.depth as usize };
        let fen = p.fen();
        let out = procdrv::run_cli(
            &["perft", "--fen", &fen, "--depth", &depth.to_string()],
            Duration::from_secs(120),
        )?;
        if out.timed_out {
            return Err(format!("weechess perft --fen '{}' --depth {} did not finish in 120 s", fen, depth));
        }
        if out.code != Some(0) {
            return Err(format!(
                "weechess perft --fen '{}' --depth {} exited with {:?}: {}",
                fen, depth, out.code, out.stderr
            ));
        }
        let mut total: Option<u64> = None;
        let mut lines: Vec<(String, u64)> = vec![];
        for l in out.stdout.lines() {
            if let Some(rest) = l.strip_prefix("Total nodes: ") {
                total = rest.split(' ').next().and_then(|x| x.parse().ok());
            } else if let (Some(a), Some(b)) = (l.find('['), l.rfind(']')) {
                // "<peg>: <count> [<fen>]"
                let head = &l[..a];
                let count = head
                    .rsplit(':')
                    .next()
                    .and_then(|x| x.trim().parse::<u64>().ok())
                    .ok_or_else(|| format!("unparsable perft line '{}'", l))?;
                lines.push((l[a + 1..b].to_string(), count));
            }
        }
        let want_total = p.perft(depth);
        if total != Some(want_total) {
            return Err(format!(
                "weechess perft --fen '{}' --depth {} printed total {:?}, the rules give {}",
                fen, depth, total, want_total
            ));
        }
        if depth >= 2 {
            let mut want: Vec<(String, u64)> = p
                .legal()
                .iter()
                .map(|(_, n)| (n.fen(), n.perft(depth - 1)))
                .collect();
            want.sort();
            lines.sort();
            if want != lines {
                return Err(format!(
                    "weechess perft --fen '{}' --depth {}: per-move lines differ from the rules: printed {:?} expected {:?}",
                    fen, depth, lines, want
                ));
            }
        }
        loc.eval();
        if depth >= 2 {
            loc.nontrivial(&(p.fen4(), depth, "cli"));
        }
        loc.sample(|| json!({"cmd": format!("weechess perft --fen '{}' --depth {}", fen, depth), "total": want_total}));
        Ok(())
    }
}
