//! C05 — no-move positions score as mate or draw; others never as mate.

use super::c01::{small_family_pos, small_family_size, starts};
use super::Plan;
use crate::gen::{self, BuildCase, PlayCase};
use crate::glue::{self, o_col};
use crate::oracle::rules::{off, Col, Pos, Status, KING_D};
use crate::runner::{par_range, Ctx, DynProp, Local, Prop};
use proptest::prelude::*;
use serde::{Deserialize, Serialize};
use serde_json::{json, Value};
use weechess_engine::eval::{Evaluation, Evaluator};

pub const PLIES: [usize; 9] = [0, 1, 2, 5, 9, 10, 11, 50, 1000];

/// Is this a position whose king has an empty neighbour square that is unattacked in the
/// attack map computed with the king on the board (the shape that hides x-ray checks)?
pub fn xray_shape(p: &Pos) -> bool {
    let Some(k) = p.king(p.stm) else { return false };
    let att = p.attack_set(p.stm.opp(), false);
    KING_D
        .iter()
        .filter_map(|d| off(k, *d))
        .any(|s| p.b[s].is_none() && att & (1 << s) == 0)
}

pub fn check_eval(p: &Pos, loc: &mut Local) -> Result<(), String> {
    if p.imbalance2() > 140 {
        loc.class("skipped_imbalance_over_70");
        return Ok(());
    }
    let status = p.status();
    let state = glue::state_direct(p);
    let e = Evaluator::default();
    match status {
        Status::Checkmate => {
            for ply in PLIES {
                for persp in [Col::W, Col::B] {
                    loc.eval();
                    let got = e.evaluate(&state, o_col(persp), ply);
                    let m = Evaluation::mate_in_ply(ply);
                    let want = if persp == p.stm { -m } else { m };
                    if got != want {
                        return Err(format!(
                            "checkmate '{}' evaluates to {} for {:?} at ply {}, expected the mate score {}",
                            p.fen(),
                            i32::from(got),
                            persp,
                            ply,
                            i32::from(want)
                        ));
                    }
                }
            }
            loc.nontrivial(&p.fen4());
            loc.class("checkmate");
            if xray_shape(p) {
                loc.class("checkmate_xray_shape");
            }
        }
        Status::Stalemate => {
            for ply in [0usize, 3, 10, 1000] {
                for persp in [Col::W, Col::B] {
                    loc.eval();
                    let got = e.evaluate(&state, o_col(persp), ply);
                    if got != Evaluation::EVEN {
                        return Err(format!(
                            "stalemate '{}' evaluates to {} for {:?} at ply {}, expected exactly 0",
                            p.fen(),
                            i32::from(got),
                            persp,
                            ply
                        ));
                    }
                }
            }
            loc.nontrivial(&p.fen4());
            loc.class("stalemate");
        }
        Status::Normal => {
            for ply in [0usize, 7] {
                for persp in [Col::W, Col::B] {
                    loc.eval();
                    let got = e.evaluate(&state, o_col(persp), ply);
                    if got.is_terminal() {
                        return Err(format!(
                            "'{}' has a legal move but evaluates to the terminal score {} for {:?}",
                            p.fen(),
                            i32::from(got),
                            persp
                        ));
                    }
                }
            }
            loc.class("non_terminal");
            if p.in_check(p.stm) {
                loc.class("non_terminal_in_check");
            }
        }
    }
    Ok(())
}

// ---------------------------------------------------------------------- small families

pub struct SmallFamilies;

impl DynProp for SmallFamilies {
    fn name(&self) -> &'static str {
        "eval_small_families"
    }
    fn run(&self, ctx: &Ctx, cases: u64) {
        let stride = cases.max(1);
        let n = small_family_size() / stride;
        let offset = if stride > 1 { ctx.seed % stride } else { 0 };
        par_range(ctx, "eval_small_families", n, |j, loc| {
            let Some(p) = small_family_pos(j * stride + offset) else { return Ok(()) };
            check_eval(&p, loc).map_err(|m| (json!({"fen": p.fen()}), m))
        });
        if stride == 1 {
            ctx.mark_exhaustive("all legal K+X v K positions (X any kind, either colour, both sides to move)");
        }
    }
    fn replay(&self, _: &Ctx, case: &Value) -> Result<(), String> {
        let p = Pos::from_fen(case["fen"].as_str().ok_or("no fen")?).ok_or("bad fen")?;
        check_eval(&p, &mut Local::new())
    }
}

// ------------------------------------------------------------------------- play / build

#[derive(Debug, Clone, Serialize, Deserialize)]
pub enum Source {
    Play(PlayCase),
    Build(BuildCase),
}

pub struct EvalGenerated;

impl Prop for EvalGenerated {
    type Case = Source;
    fn name(&self) -> &'static str {
        "eval_generated"
    }
    fn strategy(&self, _: &Ctx) -> BoxedStrategy<Source> {
        prop_oneof![
            gen::play_strategy(120).prop_map(Source::Play),
            gen::build_strategy(14).prop_map(Source::Build),
        ]
        .boxed()
    }
    fn test(&self, _: &Ctx, case: &Source, loc: &mut Local) -> Result<(), String> {
        let p = match case {
            Source::Play(c) => {
                let played = gen::play(starts(), c);
                for q in played.positions.iter() {
                    check_eval(q, loc)?;
                }
                played.positions.last().unwrap().clone()
            }
            Source::Build(c) => {
                let Some(p) = gen::build(c) else {
                    loc.class("rejected_build");
                    return Ok(());
                };
                check_eval(&p, loc)?;
                p
            }
        };
        // G-terminal: every successor (natural many-piece mates and stalemates live here)
        for (_, n) in p.legal() {
            check_eval(&n, loc)?;
        }
        loc.sample(|| json!({"fen": p.fen(), "status": format!("{:?}", p.status())}));
        Ok(())
    }
}

// --------------------------------------------------------------------------- mate scores

pub struct MateScores;

impl DynProp for MateScores {
    fn name(&self) -> &'static str {
        "mate_scores"
    }
    fn run(&self, ctx: &Ctx, cases: u64) {
        par_range(ctx, "mate_scores", cases, |ply, loc| {
            let ply = ply as usize;
            let a = Evaluation::mate_in_ply(ply);
            let b = Evaluation::mate_in_ply(ply + 1);
            loc.eval();
            if ply <= 12 {
                loc.nontrivial(&("mate_in_ply", ply));
            }
            if !a.is_terminal() || !(-a).is_terminal() || a < Evaluation::POS_INF {
                return Err((json!({"ply": ply}), format!("mate_in_ply({}) = {} is below the terminal threshold", ply, i32::from(a))));
            }
            if b > a {
                return Err((json!({"ply": ply}), format!("mate_in_ply({}) = {} > mate_in_ply({}) = {}: slower mates preferred", ply + 1, i32::from(b), ply, i32::from(a))));
            }
            Ok(())
        });
    }
    fn replay(&self, _: &Ctx, case: &Value) -> Result<(), String> {
        let ply = case["ply"].as_u64().ok_or("no ply")? as usize;
        let a = Evaluation::mate_in_ply(ply);
        let b = Evaluation::mate_in_ply(ply + 1);
        if !a.is_terminal() || a < Evaluation::POS_INF || b > a {
            return Err(format!("mate scores at ply {}: {} then {}", ply, i32::from(a), i32::from(b)));
        }
        Ok(())
    }
}

// ------------------------------------------- terminal positions with a tempting pseudo-legal move

/// Stalemates and checkmates in which the side to move still has a pseudo-legal move that only a pin
/// forbids - above all an en-passant capture that would uncover its king along the rank (two men
/// leave the line at once) - are where "has a legal move" shortcuts go wrong. Mined by seeded
/// construction (king, own pawn, the just double-stepped pawn and a rook or queen on one rank, a
/// few guards around); everything is classified by the rules oracle.
pub struct PinnedOnlyMoves;

fn pinned_trial(i: u64) -> Option<Pos> {
    use crate::oracle::rules::Kind;
    let mut x = i.wrapping_mul(0x9E3779B97F4A7C15) ^ 0xc05_c05;
    let mut r = |n: usize| (crate::runner::splitmix(&mut x) % n as u64) as usize;
    let mut p = Pos::empty(Col::W);
    // rank 5 (index 4): K, P, p in a row, the rook or queen further along the rank
    let left = r(2) == 0;
    let kf = if left { r(3) } else { 7 - r(3) };
    let step: isize = if left { 1 } else { -1 };
    let sq = |f: isize| (32 + f) as usize;
    let (k, own, pushed) = (kf as isize, kf as isize + step, kf as isize + 2 * step);
    let far = if left { pushed + 1 + r((7 - pushed) as usize) as isize } else { pushed - 1 - r(pushed as usize) as isize };
    if !(0..8).contains(&far) || far == pushed {
        return None;
    }
    p.b[sq(k)] = Some((Col::W, Kind::K));
    p.b[sq(own)] = Some((Col::W, Kind::P));
    p.b[sq(pushed)] = Some((Col::B, Kind::P));
    p.b[sq(far)] = Some((Col::B, if r(2) == 0 { Kind::R } else { Kind::Q }));
    p.ep = Some(40 + pushed as usize);
    // black king somewhere, guards around the white king
    let bk = r(64);
    if p.b[bk].is_some() {
        return None;
    }
    p.b[bk] = Some((Col::B, Kind::K));
    for _ in 0..(2 + r(4)) {
        let kind = [Kind::P, Kind::P, Kind::N, Kind::B, Kind::R, Kind::Q][r(6)];
        let d = KING_D[r(8)];
        let near = off(sq(k), d).and_then(|a| off(a, KING_D[r(8)])).unwrap_or(r(64));
        if p.b[near].is_none() && !(kind == Kind::P && (near / 8 == 0 || near / 8 == 7)) && near / 8 != 4 {
            p.b[near] = Some((Col::B, kind));
        }
    }
    // the squares the double step passed must be empty
    if p.b[40 + pushed as usize].is_some() || p.b[48 + pushed as usize].is_some() {
        return None;
    }
    if !p.is_legal_position() || p.has_legal_move() {
        return None;
    }
    // terminal, and a pseudo-legal move exists that is not a king move
    if !p.pseudo().iter().any(|m| m.kind != Kind::K) {
        return None;
    }
    Some(p)
}

impl DynProp for PinnedOnlyMoves {
    fn name(&self) -> &'static str {
        "terminal_with_pinned_pseudo_moves"
    }
    fn run(&self, ctx: &Ctx, cases: u64) {
        let found: std::sync::Mutex<Vec<(u64, Pos)>> = std::sync::Mutex::new(vec![]);
        par_range(ctx, "terminal_with_pinned_pseudo_moves", cases, |i, loc| {
            let Some(p) = pinned_trial(i) else { return Ok(()) };
            found.lock().unwrap().push((i, p.clone()));
            for q in [p.clone(), p.mirror()] {
                check_eval(&q, loc).map_err(|e| (json!({"index": i}), e))?;
                loc.nontrivial(&q.fen4());
            }
            loc.class(if p.in_check(p.stm) { "pinned:checkmate" } else { "pinned:stalemate" });
            if p.pseudo().iter().any(|m| m.ep) {
                loc.class("pinned:en_passant_capture_forbidden_by_a_pin");
            }
            Ok(())
        });
        let mut v = found.into_inner().unwrap();
        v.sort_by_key(|x| x.0);
        ctx.extra("pinned_pool", json!({"trials": cases, "positions": v.len(), "examples": v.iter().take(5).map(|x| x.1.fen()).collect::<Vec<_>>()}));
    }
    fn replay(&self, _: &Ctx, case: &Value) -> Result<(), String> {
        let i = case["index"].as_u64().ok_or("no index")?;
        let Some(p) = pinned_trial(i) else { return Err("the index does not give a position".into()) };
        let mut loc = Local::new();
        check_eval(&p, &mut loc)?;
        check_eval(&p.mirror(), &mut loc)
    }
}

pub fn plan(ctx: &Ctx) -> Plan {
    let t = ctx.tier;
    Plan {
        props: vec![
            (Box::new(MateScores), 10_001),
            (Box::new(SmallFamilies), 1),
            (Box::new(EvalGenerated), t.pick(250_000, 6_000_000)),
            (Box::new(PinnedOnlyMoves), t.pick(3_000_000, 60_000_000)),
        ],
        rule: "every legal position of the complete K+X v K families (exhaustive), every position of weighted random \
               games, constructed positions and all their successors (where natural many-piece mates and stalemates \
               occur); the oracle classifies checkmate / stalemate / has a legal move; checkmate => evaluate == \
               -mate_in_ply(ply) for the side to move's perspective and +mate_in_ply(ply) for the opponent's at ply in \
               {0,1,2,5,9,10,11,50,1000}; stalemate => exactly 0; otherwise the score is not terminal. Positions with a \
               material imbalance above 70 pawn units are skipped (the property bounds it at 90). mate_in_ply is \
               checked terminal and non-increasing for ply 0..10000. Non-trivial = distinct terminal positions; the \
               histogram reports how many mates have the x-ray shape (an empty king neighbour unattacked in the \
               with-king attack map).",
        assumptions: &[
            "ply values >= 2^31 are not exercised (no caller can produce them)",
            "the mailbox rules oracle is correct (anchored to published perft counts)",
        ],
        self_test: super::oracle_self_test,
        post: None,
    }
}
