//! C17 — positions already seen in the game are treated as draws by the search.

use super::c03::WORKERS;
use super::c06::{tb_self_test, tbdata, GEOM};
use super::Plan;
use crate::glue;
use crate::oracle::rules::{Mv, Pos};
use crate::oracle::tb::Wdl;
use crate::runner::{Ctx, Local, Prop};
use crate::search::{self, Geometry, SearchSpec, POS_INF};
use proptest::prelude::*;
use serde::{Deserialize, Serialize};
use serde_json::json;
use std::collections::{HashMap, HashSet};
use weechess_engine::searcher::verif;

#[derive(Debug, Clone, Serialize, Deserialize)]
pub struct Case {
    /// 1 -> mate in 3, 2 -> mate in 5
    pub n: u8,
    pub pick: u32,
    pub mirror: bool,
    /// which preserving successors are recorded (bit i = i-th preserving move, at least one kept free)
    pub recorded_mask: u16,
    /// 0 = subset of the preserving moves, 1 = every successor of the root, 2 = subset + the root itself again,
    /// 3 = subset, recorded by really searching those positions first on the same memory
    pub shape: u8,
    pub extra_depth: u8,
    pub seed: u64,
    pub hasher_seed: u64,
    pub workers: u8,
    pub sched: Option<u64>,
}

/// Forced mate within `k` plies in the game where positions of `recorded` (met below the
/// root) are terminal draws.
/// identity of a 3-man position for the repetition history: placement and side to move (no
/// castling rights; an en-passant target can never be captured with a single pawn on the board,
/// and the engine's hash ignores uncapturable targets)
fn key(p: &Pos) -> String {
    format!("{} {:?}", p.placement(), p.stm)
}

struct DrawGame<'a> {
    recorded: &'a HashSet<String>,
    memo: HashMap<(String, u32, bool), bool>,
}

impl<'a> DrawGame<'a> {
    /// side to move (the attacker) can force mate within k plies; `is_root` = not subject to the draw rule
    fn wins(&mut self, p: &Pos, k: u32, is_root: bool) -> bool {
        if k == 0 {
            return false;
        }
        let key = key(p);
        if !is_root && self.recorded.contains(&key) {
            return false;
        }
        if let Some(v) = self.memo.get(&(key.clone(), k, true)) {
            return *v;
        }
        let mut r = false;
        for (_, s) in p.legal() {
            if self.loses(&s, k - 1) {
                r = true;
                break;
            }
        }
        self.memo.insert((key, k, true), r);
        r
    }
    /// side to move (the defender) is mated within k plies whatever it plays
    fn loses(&mut self, p: &Pos, k: u32) -> bool {
        let key = key(p);
        if self.recorded.contains(&key) {
            return false; // a recorded position is a draw
        }
        if let Some(v) = self.memo.get(&(key.clone(), k, false)) {
            return *v;
        }
        let legal = p.legal();
        let r = if legal.is_empty() {
            p.in_check(p.stm)
        } else if k < 2 {
            false
        } else {
            legal.iter().all(|(_, s)| self.wins(s, k - 1, false))
        };
        self.memo.insert((key, k, false), r);
        r
    }
}

pub struct Repetition;

impl Prop for Repetition {
    type Case = Case;
    fn name(&self) -> &'static str {
        "recorded_positions_are_draws"
    }
    fn max_shrink_iters(&self) -> u32 {
        200
    }
    fn max_shrink_time_ms(&self) -> u32 {
        60_000
    }
    fn strategy(&self, _: &Ctx) -> BoxedStrategy<Case> {
        (
            1u8..=2,
            any::<u32>(),
            any::<bool>(),
            1u16..,
            prop_oneof![4 => Just(0u8), 2 => Just(1u8), 2 => Just(2u8), 5 => Just(3u8), 2 => Just(4u8)],
            0u8..=2,
            any::<u64>(),
            any::<u64>(),
            prop_oneof![10 => Just(0u8), 2 => Just(1u8), 1 => Just(2u8), 2 => Just(3u8), 1 => Just(4u8), 1 => Just(5u8)],
            any::<u64>(),
        )
            .prop_map(|(n, pick, mirror, recorded_mask, shape, extra_depth, seed, hasher_seed, w, sched)| {
                let workers = WORKERS[w as usize];
                Case { n, pick, mirror, recorded_mask, shape, extra_depth, seed, hasher_seed, workers, sched: if workers > 1 && sched % 8 != 0 { Some(sched) } else { None } }
            })
            .boxed()
    }
    fn test(&self, _: &Ctx, case: &Case, loc: &mut Local) -> Result<(), String> {
        let d = tbdata();
        let list = &d.wins[case.n as usize % 3];
        let n = [1u32, 3, 5][case.n as usize % 3];
        let base = &list[(case.pick as usize) % list.len()];
        let pos = if case.mirror { base.mirror() } else { base.clone() };
        let legal = pos.legal();
        // mate-preserving first moves: the successor is tablebase-lost
        let preserving: Vec<(Mv, Pos, u16)> = legal
            .iter()
            .filter_map(|(m, s)| match d.tb.probe(s) {
                Some(Wdl::Loss(k)) => Some((*m, s.clone(), k)),
                _ => None,
            })
            .collect();
        if preserving.len() < 2 {
            loc.class("fewer_than_two_preserving_moves");
            return Ok(());
        }
        let depth = (n as u8 + case.extra_depth).min(7);
        // the recorded set
        let mut recorded_pos: Vec<Pos> = vec![];
        match case.shape {
            1 => recorded_pos = legal.iter().map(|x| x.1.clone()).collect(),
            4 => {
                // deeper in the tree: positions two plies below the root (after a mate-preserving move and
                // a reply), the attacker to move again - the way a real game repeats
                let mut j = 0;
                for (_, s, _) in preserving.iter() {
                    for (_, q) in s.legal() {
                        if (case.recorded_mask >> (j % 16)) & 1 == 1 && recorded_pos.len() < 4 && key(&q) != key(&pos) {
                            recorded_pos.push(q);
                        }
                        j += 1;
                    }
                }
                if recorded_pos.is_empty() {
                    if let Some(q) = preserving[0].1.legal().into_iter().map(|x| x.1).find(|q| key(q) != key(&pos)) {
                        recorded_pos.push(q);
                    }
                }
            }
            _ => {
                for (i, (_, s, _)) in preserving.iter().enumerate() {
                    if (case.recorded_mask >> (i % 16)) & 1 == 1 {
                        recorded_pos.push(s.clone());
                    }
                }
                if recorded_pos.is_empty() {
                    recorded_pos.push(preserving[0].1.clone());
                }
                if recorded_pos.len() == preserving.len() {
                    recorded_pos.pop(); // leave one preserving move free
                }
            }
        }
        // shape 3 also runs on small memories that the earlier searches fill up (a table that is
        // more than half full when the judged search starts); one worker there
        let small = [None, Some(Geometry { tables: 3, buckets: 61 }), Some(Geometry { tables: 7, buckets: 29 }), Some(Geometry { tables: 5, buckets: 32 })];
        let geometry = if case.shape == 3 { small[(case.hasher_seed % 4) as usize].unwrap_or(GEOM) } else { GEOM };
        let small_memory = geometry != GEOM;
        let mut artifact = search::new_artifact(case.hasher_seed, geometry);
        if case.shape == 3 {
            // the way positions get recorded in real use: each recorded successor was the root of
            // an earlier search on the same search memory (which also leaves its table entries)
            for (i, s) in recorded_pos.iter().enumerate() {
                if !s.has_legal_move() {
                    verif::record_history(&mut artifact, &glue::state_direct(s));
                    continue;
                }
                let pre = SearchSpec {
                    depth: Some(1 + ((case.seed >> (8 * (i % 8))) % 4) as u8),
                    seed: case.seed.rotate_left(i as u32 + 1),
                    workers: 1,
                    sched_seed: None,
                    cancel_after: None,
                };
                let (o, back) = search::run(s, &pre, artifact, usize::MAX);
                loc.eval();
                match back {
                    Some(a) => artifact = a,
                    None => return Err(format!("earlier search of '{}' ({:?}) panicked: {:?}", s.fen(), pre, o.panic)),
                }
                if !verif::history_contains(&artifact, &glue::state_direct(s)) {
                    return Err(format!("after searching '{}' the search memory does not record it as seen", s.fen()));
                }
            }
            loc.class("recorded_by_earlier_searches");
            if case.seed % 2 == 1 && recorded_pos.len() >= 2 && recorded_pos[0].has_legal_move() {
                // the first of them is searched once more (a game that goes back to an earlier position):
                // everything recorded stays recorded
                let s = &recorded_pos[0];
                let pre = SearchSpec { depth: Some(1), seed: case.seed ^ 0xaaaa, workers: 1, sched_seed: None, cancel_after: None };
                let (o, back) = search::run(s, &pre, artifact, usize::MAX);
                loc.eval();
                match back {
                    Some(a) => artifact = a,
                    None => return Err(format!("second search of '{}' ({:?}) panicked: {:?}", s.fen(), pre, o.panic)),
                }
                for r in recorded_pos.iter() {
                    if !verif::history_contains(&artifact, &glue::state_direct(r)) {
                        return Err(format!("after '{}' had been searched a second time on the same memory, '{}' (searched in between) is no longer recorded as seen", s.fen(), r.fen()));
                    }
                }
                loc.class("an_earlier_root_searched_again");
            }
            if small_memory {
                // one more earlier search, of an unrelated position, to fill the table
                let filler = Pos::from_fen("8/2p5/3p4/KP5r/1R3p1k/8/4P1P1/8 w - - 0 1").unwrap();
                let pre = SearchSpec { depth: Some(5), seed: case.seed ^ 0xf111, workers: 1, sched_seed: None, cancel_after: None };
                let (o, back) = search::run(&filler, &pre, artifact, usize::MAX);
                loc.eval();
                match back {
                    Some(a) => artifact = a,
                    None => return Err(format!("earlier search of '{}' ({:?}) panicked: {:?}", filler.fen(), pre, o.panic)),
                }
                let (used, cap) = verif::table_usage(&artifact);
                loc.class(if used * 2 > cap { "small_memory_more_than_half_full_before_the_judged_search" } else { "small_memory_at_most_half_full" });
                for s in recorded_pos.iter() {
                    if !verif::history_contains(&artifact, &glue::state_direct(s)) {
                        return Err(format!("after a further search on the same memory, '{}' is no longer recorded as seen", s.fen()));
                    }
                }
            }
        } else {
            for s in recorded_pos.iter() {
                verif::record_history(&mut artifact, &glue::state_direct(s));
            }
        }
        if case.shape == 2 {
            // the root itself is recorded as well (the search adds it once more on its own)
            verif::record_history(&mut artifact, &glue::state_direct(&pos));
        }
        let mut recorded: HashSet<String> = recorded_pos.iter().map(key).collect();
        // the search records its own root: lines re-entering the root are draws too
        recorded.insert(key(&pos));
        let s_moves: Vec<Mv> = legal.iter().filter(|(_, s)| recorded_pos.iter().any(|r| key(r) == key(s))).map(|x| x.0).collect();

        let spec = if small_memory {
            SearchSpec { depth: Some(depth), seed: case.seed, workers: 1, sched_seed: None, cancel_after: None }
        } else {
            SearchSpec { depth: Some(depth), seed: case.seed, workers: case.workers, sched_seed: case.sched, cancel_after: None }
        };
        let (out, _) = search::run(&pos, &spec, artifact, usize::MAX);
        loc.eval();
        let what = format!(
            "search of '{}' (mate in {} plies; recorded successors {:?}{}; {:?})",
            pos.fen(), n, s_moves.iter().map(|m| m.lan()).collect::<Vec<_>>(),
            if case.shape == 2 { " and the root" } else { "" }, spec
        );
        if let Some(p) = &out.panic {
            return Err(format!("{} panicked: {}", what, p));
        }
        for b in out.best.iter() {
            search::check_line(&pos, &b.line).map_err(|e| format!("{}: {}", what, e))?;
            // a mate score whose first move re-enters a recorded position had to be a draw
            if b.eval >= POS_INF && s_moves.contains(&b.line[0]) {
                return Err(format!(
                    "{}: reported the winning terminal evaluation {} with first move {}, which re-enters a recorded position and had to be valued as a draw",
                    what, b.eval, b.line[0].lan()
                ));
            }
            // soundness as in C06
            if b.eval >= POS_INF {
                match d.tb.probe(&pos.apply(&b.line[0])) {
                    Some(Wdl::Loss(_)) => {}
                    v => return Err(format!("{}: mate claimed with first move {} but the successor's tablebase value is {:?}", what, b.line[0].lan(), v)),
                }
            }
        }
        let Some(last) = out.best.last() else {
            return Err(format!("{} reported nothing", what));
        };
        if case.shape == 4 {
            // exact values of the game the property defines (3-man graph, recorded positions and the
            // root are terminal draws): a claimed mate must exist there and the first move must keep it
            loc.class("recorded_two_plies_below_the_root");
            let mut g = DrawGame { recorded: &recorded, memo: HashMap::new() };
            for b in out.best.iter().filter(|b| b.eval >= POS_INF) {
                let succ = pos.apply(&b.line[0]);
                let kept = (0..=60u32).step_by(2).any(|k| g.loses(&succ, k));
                if !kept {
                    return Err(format!(
                        "{}: reported the winning terminal evaluation {} with first move {}; with the recorded positions {:?} valued as draws the opponent is not mated after that move whatever the depth (some reply re-enters a recorded position or escapes)",
                        what, b.eval, b.line[0].lan(), recorded_pos.iter().map(|q| q.fen4()).collect::<Vec<_>>()
                    ));
                }
            }
            let forced = g.wins(&pos, depth as u32, true);
            if forced && last.eval < POS_INF {
                return Err(format!(
                    "{}: with the recorded positions {:?} as draws the side to move still forces mate within {} plies, but the final evaluation is {}",
                    what, recorded_pos.iter().map(|q| q.fen4()).collect::<Vec<_>>(), depth, last.eval
                ));
            }
            loc.class(if forced { "mate_still_forced_with_draws" } else { "no_mate_within_depth_with_draws" });
            // did the history change the answer?
            let (free, _) = search::run(&pos, &spec, search::new_artifact(case.hasher_seed, geometry), usize::MAX);
            if let (Some(fb), true) = (free.best.last(), forced) {
                let fsucc = pos.apply(&fb.line[0]);
                if !(0..=60u32).step_by(2).any(|k| g.loses(&fsucc, k)) {
                    loc.class("history_changed_the_answer");
                    loc.nontrivial(&(pos.fen4(), "ply2", depth, case.workers, case.seed));
                }
            }
            return Ok(());
        }
        if case.shape == 1 {
            // every line re-enters a recorded position at ply 1: the value must be the draw score
            loc.class("all_successors_recorded");
            if last.eval != 0 {
                return Err(format!("{}: every successor of the root is recorded, the evaluation must be exactly the draw score 0 but is {}", what, last.eval));
            }
            loc.nontrivial(&(pos.fen4(), "all", depth, case.seed));
            return Ok(());
        }
        // expectation computed in the game the property defines (recorded positions are draws)
        let mut g = DrawGame { recorded: &recorded, memo: HashMap::new() };
        let forced = g.wins(&pos, depth as u32, true);
        if forced {
            loc.class("mate_still_forced_with_draws");
            if last.eval < POS_INF {
                return Err(format!(
                    "{}: with the recorded positions as draws the side to move still forces mate within {} plies, but the final evaluation is {} (line {})",
                    what, depth, last.eval, last.line.iter().map(|m| m.lan()).collect::<Vec<_>>().join(" ")
                ));
            }
        } else {
            loc.class("no_mate_within_depth_with_draws");
        }
        // did the history change the answer? (same seed, empty history)
        let (free, _) = search::run(&pos, &spec, search::new_artifact(case.hasher_seed, geometry), usize::MAX);
        if let Some(fb) = free.best.last() {
            if s_moves.contains(&fb.line[0]) {
                loc.class("history_changed_the_answer");
                loc.nontrivial(&(pos.fen4(), format!("{:?}", s_moves), depth, case.workers, case.seed));
            }
        }
        if case.shape == 2 {
            loc.class("root_recorded_too");
        }
        loc.class(match case.workers { 1 => "workers_1", 2..=4 => "workers_2_4", 8 => "workers_8", _ => "workers_32" });
        loc.sample(|| json!({"fen": pos.fen(), "mate_in_plies": n, "depth": depth, "recorded_first_moves": s_moves.iter().map(|m| m.lan()).collect::<Vec<_>>(),
            "chosen": last.line[0].lan(), "eval": last.eval, "unconstrained_choice": free.best.last().map(|b| b.line[0].lan())}));
        Ok(())
    }
}

/// A root reached by a double pawn push that no pawn can answer en passant is, by the rules of the game, the
/// same position as the one without the target: once it was searched, the memory must know it under both
/// spellings (a later line re-enters it by an ordinary move, without a target). Seeded change C17g.
#[derive(Clone, Debug, Serialize, Deserialize)]
pub struct PushCase {
    pub source: super::c03::Source,
    pub file: u8,
    pub target_first: bool,
    pub depth: u8,
    pub seed: u64,
    pub hasher_seed: u64,
}

pub struct DoublePushRoots;

impl Prop for DoublePushRoots {
    type Case = PushCase;
    fn name(&self) -> &'static str {
        "double_push_roots_are_recognised"
    }
    fn strategy(&self, _: &Ctx) -> BoxedStrategy<PushCase> {
        (super::c03::sparse_source(), 0u8..8, any::<bool>(), 1u8..=2, any::<u64>(), any::<u64>())
            .prop_map(|(source, file, target_first, depth, seed, hasher_seed)| PushCase { source, file, target_first, depth, seed, hasher_seed })
            .boxed()
    }
    fn test(&self, _: &Ctx, case: &PushCase, loc: &mut Local) -> Result<(), String> {
        use crate::oracle::rules::{Col, Kind};
        let Some(mut p) = super::c03::source_pos(&case.source) else { return Ok(()) };
        // construction: the side that is NOT to move has just played a double push on the chosen file
        let mover = p.stm.opp();
        let f = case.file as usize;
        let (r2, r3, r4) = if mover == Col::W { (1usize, 2usize, 3usize) } else { (6, 5, 4) };
        for r in [r2, r3, r4] {
            if matches!(p.b[r * 8 + f], Some((_, Kind::K))) {
                loc.class("king_on_the_push_file_squares");
                return Ok(());
            }
            p.b[r * 8 + f] = None;
        }
        p.b[r4 * 8 + f] = Some((mover, Kind::P));
        // nobody can capture en passant: no pawn of the side to move beside the pushed pawn
        for df in [-1i32, 1] {
            let nf = f as i32 + df;
            if (0..8).contains(&nf) && p.b[r4 * 8 + nf as usize] == Some((p.stm, Kind::P)) {
                p.b[r4 * 8 + nf as usize] = None;
            }
        }
        p.ep = None;
        // castling rights whose rook or king the construction removed cannot stay
        p.cas = [false; 4];
        let mut with_target = p.clone();
        with_target.ep = Some(r3 * 8 + f);
        if !p.is_legal_position() || !with_target.is_legal_position() || !p.has_legal_move() {
            loc.class("constructed_position_not_legal_or_terminal");
            return Ok(());
        }
        let (first, second) = if case.target_first { (&with_target, &p) } else { (&p, &with_target) };
        let spec = SearchSpec { depth: Some(case.depth), seed: case.seed, workers: 1, sched_seed: None, cancel_after: None };
        let (o, back) = search::run(first, &spec, search::new_artifact(case.hasher_seed, GEOM), usize::MAX);
        loc.eval();
        let Some(artifact) = back else {
            return Err(format!("search of '{}' ({:?}) panicked: {:?}", first.fen(), spec, o.panic));
        };
        if !verif::history_contains(&artifact, &glue::state_direct(first)) {
            return Err(format!("after searching '{}' the search memory does not record it as seen", first.fen()));
        }
        if !verif::history_contains(&artifact, &glue::state_direct(second)) {
            return Err(format!(
                "after searching '{}' the search memory does not recognise '{}' as seen: the two differ only in an en-passant target that no pawn can capture, they are the same position of the game",
                first.fen(), second.fen()
            ));
        }
        loc.class(if case.target_first { "searched_with_target_asked_without" } else { "searched_without_target_asked_with" });
        loc.nontrivial(&(p.fen4(), case.target_first));
        loc.sample(|| json!({"searched": first.fen(), "asked": second.fen(), "depth": case.depth}));
        Ok(())
    }
}

pub fn plan(ctx: &Ctx) -> Plan {
    let t = ctx.tier;
    Plan {
        props: vec![(Box::new(Repetition), t.pick(5_000, 300_000)), (Box::new(DoublePushRoots), t.pick(3_000, 100_000))],
        rule: "tablebase positions (KQK, KRK, KPK, also colour-mirrored) where the side to move mates in exactly 3 or 5 \
               plies and at least two first moves keep the mate; a generated non-empty subset S of the mate-preserving \
               successors is put into the repetition history (cfg hook record_history) leaving at least one preserving \
               move free; companion shapes: every successor of the root recorded (the evaluation must then be exactly the \
               draw score), the root itself recorded in addition (it must still be searched), positions TWO plies below the \
               root recorded (injected; judged against the exact values of the draw-augmented game: a claimed mate's first \
               move must still mate there, a mate still forced within the depth must be found), and - the way it \
               happens in real use - the recorded successors having been roots of earlier searches (depth 1-4) on the \
               same search memory, which also leaves their table entries behind, every second time followed by a second search of the first of them (three quarters of these cases on a small \
               memory - 3x61, 7x29 or 5x32 buckets, table counts coprime to the bucket counts so that every bucket is reachable - that a further earlier search fills beyond one half). depth n..n+2, seeds, \
               1-32 workers under the baton scheduler, fresh 8x1024 memory. The expectation is solved in the game the \
               property defines (recorded positions and the root are terminal draws) by an exhaustive AND/OR search over \
               the 3-man move graph bounded by the depth: if a mate is still forced the final evaluation must be >= \
               POS_INF; in every case a winning terminal evaluation whose first move re-enters a recorded position is a \
               violation, and a claimed mate's first move must leave the opponent tablebase-lost. Non-trivial = distinct \
               cases where the same search with an empty history chooses a recorded move (the history changed the \
               answer), and all 'every successor recorded' cases. Second part (double_push_roots_are_recognised): sparse generated \
               positions into which a just-played double pawn push that nobody can capture en passant is constructed; the position is \
               searched (depth 1-2) under one spelling (with or without the en-passant target) and the memory must then record it as seen \
               under the other spelling as well (cfg hook history_contains) - by the rules both are the same position, and a later line \
               re-enters it without a target.",
        assumptions: &[
            "recorded positions are identified by placement, side, rights and en-passant target (3-man positions have neither rights nor targets)",
            "interleavings are sampled by schedule seed",
        ],
        self_test: tb_self_test,
        post: None,
    }
}
