use crate::runner::{Ctx, DynProp};

pub mod c01;
pub mod c02;
pub mod cli;

pub struct Plan {
    pub props: Vec<(Box<dyn DynProp>, u64)>,
    pub rule: &'static str,
    pub assumptions: &'static [&'static str],
    pub self_test: fn(&Ctx) -> Result<(), String>,
    pub post: Option<fn(&Ctx)>,
}

pub fn oracle_self_test(ctx: &Ctx) -> Result<(), String> {
    crate::oracle::rules::self_test(ctx.tier.pick(3, 4))?;
    // the corpus must be legal (asserted inside)
    let _ = crate::gen::start_positions();
    Ok(())
}

pub fn no_self_test(_: &Ctx) -> Result<(), String> {
    Ok(())
}

pub fn plan(ctx: &Ctx) -> Option<Plan> {
    match ctx.id.as_str() {
        "C01" => Some(c01::plan(ctx)),
        "C02" => Some(c02::plan(ctx)),
        _ => None,
    }
}
