use crate::runner::{Ctx, DynProp};

pub mod c01;
pub mod c02;
pub mod c03;
pub mod c04;
pub mod c05;
pub mod c06;
pub mod c07;
pub mod c08;
pub mod c09;
pub mod c10;
pub mod c11;
pub mod c12;
pub mod c13;
pub mod c14;
pub mod c15;
pub mod c16;
pub mod c17;
pub mod c18;
pub mod c19;
pub mod c20;
pub mod cli;

pub struct Plan {
    pub props: Vec<(Box<dyn DynProp>, u64)>,
    pub rule: &'static str,
    pub assumptions: &'static [&'static str],
    pub self_test: fn(&Ctx) -> Result<(), String>,
    pub post: Option<fn(&Ctx)>,
}

pub fn oracle_self_test(ctx: &Ctx) -> Result<(), String> {
    crate::oracle::rules::self_test(ctx.tier.pick(3, 4))?;
    // the corpus must be legal (asserted inside)
    let _ = crate::gen::start_positions();
    Ok(())
}

pub fn no_self_test(_: &Ctx) -> Result<(), String> {
    Ok(())
}

pub fn plan(ctx: &Ctx) -> Option<Plan> {
    match ctx.id.as_str() {
        "C01" => Some(c01::plan(ctx)),
        "C02" => Some(c02::plan(ctx)),
        "C03" => Some(c03::plan(ctx)),
        "C04" => Some(c04::plan(ctx)),
        "C05" => Some(c05::plan(ctx)),
        "C06" => Some(c06::plan(ctx)),
        "C07" => Some(c07::plan(ctx)),
        "C08" => Some(c08::plan(ctx)),
        "C09" => Some(c09::plan(ctx)),
        "C10" => Some(c10::plan(ctx)),
        "C11" => Some(c11::plan(ctx)),
        "C12" => Some(c12::plan(ctx)),
        "C13" => Some(c13::plan(ctx)),
        "C14" => Some(c14::plan(ctx)),
        "C15" => Some(c15::plan(ctx)),
        "C16" => Some(c16::plan(ctx)),
        "C17" => Some(c17::plan(ctx)),
        "C18" => Some(c18::plan(ctx)),
        "C19" => Some(c19::plan(ctx)),
        "C20" => Some(c20::plan(ctx)),
        _ => None,
    }
}
