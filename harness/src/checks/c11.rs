//! C11 — FEN text and positions round-trip.

use super::c01::starts;
use super::Plan;
use crate::gen::{self, BuildCase, PlayCase};
use crate::glue;
use crate::oracle::rules::Mv;
use crate::runner::{pick_index, Ctx, Local, Prop};
use proptest::prelude::*;
use rand::SeedableRng;
use rand_chacha::ChaCha8Rng;
use serde::{Deserialize, Serialize};
use serde_json::json;
use weechess_core::{Color, MoveGenerator, State, ZobristHasher};
use weechess_engine::eval::Evaluator;

#[derive(Debug, Clone, Serialize, Deserialize)]
pub struct PlayRt {
    pub game: PlayCase,
    pub hasher_seed: u64,
}

pub struct PlayRoundTrip;

fn moves_of(s: &State) -> Vec<Mv> {
    let mut v: Vec<Mv> = MoveGenerator::compute_legal_moves(s)
        .moves()
        .iter()
        .map(|r| glue::read_move(&r.0))
        .collect();
    v.sort();
    v
}

/// state -> text -> state': same text again, same legal moves, hash, evaluation
pub fn state_roundtrip(s: &State, hasher: &ZobristHasher, loc: &mut Local) -> Result<(), String> {
    let text = glue::fen_of(s);
    let Some(s2) = glue::state_from_fen(&text) else {
        return Err(format!("FEN '{}' written for a position reached by play is rejected by the reader", text));
    };
    let text2 = glue::fen_of(&s2);
    if text2 != text {
        return Err(format!("'{}' read back writes '{}'", text, text2));
    }
    if glue::read_state(&s2) != glue::read_state(s) {
        return Err(format!(
            "'{}' read back is the position '{}'",
            text,
            glue::read_state(&s2).fen()
        ));
    }
    if moves_of(s) != moves_of(&s2) {
        return Err(format!("'{}' read back has different legal moves", text));
    }
    if hasher.hash(s) != hasher.hash(&s2) {
        return Err(format!("'{}' read back hashes differently", text));
    }
    let e = Evaluator::default();
    for c in [Color::White, Color::Black] {
        for ply in [0usize, 3] {
            if e.evaluate(s, c, ply) != e.evaluate(&s2, c, ply) {
                return Err(format!("'{}' read back evaluates differently for {:?}", text, c));
            }
        }
    }
    loc.eval();
    let f: Vec<&str> = text.split(' ').collect();
    let asym = {
        let rows: Vec<&str> = f[0].split('/').collect();
        (0..4).any(|i| rows[i].to_lowercase() != rows[7 - i].to_lowercase())
    };
    if f[2] != "-" || f[3] != "-" || f[4].len() >= 3 || f[5].len() >= 3 || asym {
        loc.nontrivial(&text);
    }
    if f[2] != "-" {
        loc.class("castling_field");
    }
    if f[3] != "-" {
        loc.class("ep_field");
    }
    Ok(())
}

impl Prop for PlayRoundTrip {
    type Case = PlayRt;
    fn name(&self) -> &'static str {
        "play_roundtrip"
    }
    fn strategy(&self, _: &Ctx) -> BoxedStrategy<PlayRt> {
        (gen::play_strategy(150), any::<u64>())
            .prop_map(|(game, hasher_seed)| PlayRt { game, hasher_seed })
            .boxed()
    }
    fn test(&self, _: &Ctx, case: &PlayRt, loc: &mut Local) -> Result<(), String> {
        let played = gen::play(starts(), &case.game);
        let hasher = ZobristHasher::with(&mut ChaCha8Rng::seed_from_u64(case.hasher_seed));
        // reach the positions by weechess's own play
        let mut state = glue::state_direct(&played.positions[0]);
        for i in 0..played.positions.len() {
            state_roundtrip(&state, &hasher, loc)?;
            if i < played.moves.len() {
                let m = played.moves[i];
                let set = MoveGenerator::compute_legal_moves(&state);
                let Some(r) = set.moves().iter().find(|r| glue::read_move(&r.0) == m) else {
                    return Err(format!("legal move {:?} of '{}' is not generated", m, played.positions[i].fen()));
                };
                state = r.1.clone();
            }
        }
        loc.sample(|| json!({"start": played.positions[0].fen(), "plies": played.moves.len(), "end": glue::fen_of(&state)}));
        Ok(())
    }
}

// ----------------------------------------------------------------- canonical strings

const COUNTERS: [u64; 16] = [
    0, 1, 9, 10, 49, 50, 99, 100, 101, 5949, 65535, 65536, (1 << 31) - 1, 1 << 32, 1 << 63, u64::MAX,
];

#[derive(Debug, Clone, Serialize, Deserialize)]
pub struct TextRt {
    pub build: BuildCase,
    pub half: u16,
    pub full: u16,
}

pub struct TextRoundTrip;

impl Prop for TextRoundTrip {
    type Case = TextRt;
    fn name(&self) -> &'static str {
        "text_roundtrip"
    }
    fn strategy(&self, _: &Ctx) -> BoxedStrategy<TextRt> {
        (gen::build_strategy(30), any::<u16>(), any::<u16>())
            .prop_map(|(build, half, full)| TextRt { build, half, full })
            .boxed()
    }
    fn test(&self, _: &Ctx, case: &TextRt, loc: &mut Local) -> Result<(), String> {
        let Some(mut p) = gen::build(&case.build) else {
            loc.class("rejected_build");
            return Ok(());
        };
        p.half = COUNTERS[pick_index(case.half, COUNTERS.len())];
        p.full = COUNTERS[pick_index(case.full, COUNTERS.len())];
        let text = p.fen();
        let Some(s) = glue::state_from_fen(&text) else {
            return Err(format!("canonical FEN '{}' of a legal position is rejected", text));
        };
        // the parsed fields equal the position that produced the text
        let got = glue::read_state(&s);
        if got != p {
            return Err(format!("canonical FEN '{}' is read as the position '{}'", text, got.fen()));
        }
        let back = glue::fen_of(&s);
        if back != text {
            return Err(format!("canonical FEN '{}' is written back as '{}'", text, back));
        }
        loc.eval();
        loc.nontrivial(&text);
        if p.cas.iter().any(|x| *x) {
            loc.class("castling_field");
        }
        if p.ep.is_some() {
            loc.class(if p.ep.unwrap() / 8 == 2 { "ep_rank3" } else { "ep_rank6" });
        }
        if p.half > 100 || p.full > 100 {
            loc.class("large_counter");
        }
        loc.class(match p.cas.iter().filter(|x| **x).count() {
            0 => "rights_0",
            1 => "rights_1",
            2 => "rights_2",
            3 => "rights_3",
            _ => "rights_4",
        });
        loc.sample(|| json!({"fen": text}));
        Ok(())
    }
}

pub fn plan(ctx: &Ctx) -> Plan {
    let t = ctx.tier;
    Plan {
        props: vec![
            (Box::new(PlayRoundTrip), t.pick(12_000, 300_000)),
            (Box::new(TextRoundTrip), t.pick(600_000, 12_000_000)),
        ],
        rule: "(a) every position of weighted random games (<=150 plies, reached by weechess's own successors): \
               state -> FEN -> state' must write the same FEN, read back to the same fields, have the same legal move \
               tuples, the same hash under a generated hasher seed and the same evaluation for both perspectives; \
               (b) canonical FEN strings written by the independent oracle writer from constructed legal positions \
               (0-30 extra men, all 16 castling sets, en-passant targets on both ranks, counters from \
               {0,1,9,10,49,50,99,100,101,5949,65535,65536,2^31-1,2^32,2^63,2^64-1}): text -> state -> text' must be \
               identical character for character and the parsed fields must equal the oracle position. \
               Non-trivial = distinct strings with castling != '-', ep != '-', a counter >= 100 or an asymmetric placement \
               (all canonical strings of (b) are distinct generated cases).",
        assumptions: &["the oracle's FEN writer/reader is correct (its round trip on the perft suite is asserted at every run)"],
        self_test: super::oracle_self_test,
        post: None,
    }
}
