#![no_main]
use libfuzzer_sys::fuzz_target;

fuzz_target!(|data: &[u8]| {
    vharness::fuzz_entry::notation_rt(data);
});
