#!/bin/bash
# tools/try_worktree.sh <worktree-of-/repo> <ID> [quick|thorough]
# Runs one in-process check against a scratch worktree of /repo WITHOUT touching /repo: a copy of the
# harness is built with its path dependencies pointed at the worktree (separate target dir under /tmp).
# The weechess binary for the process-level checks is built in the worktree (its own target dir).
# Evidence of such a run is written to a scratch file, not to /verif/evidence.
set -u
WT=$(readlink -f "$1"); ID=$2; TIER=${3:-quick}
SFX=${TRY_SUFFIX:-}; H=/tmp/h2$SFX
mkdir -p $H
rsync -a --delete --exclude target ${HARNESS_SRC:-/verif/harness}/ $H/
sed -i "s|/repo/weechess-core|$WT/weechess-core|; s|/repo/weechess-engine|$WT/weechess-engine|" $H/Cargo.toml
sed -i "s|/verif/.target/harness|/tmp/h2$SFX-target|" $H/.cargo/config.toml
(cd $H && cargo build --release 2>&1 | grep -E "^error" -A8 | head -30)
(cd $WT && RUSTFLAGS="--cfg weechess_verif" cargo build --release --offline -p weechess_cli --target-dir $WT/target-verif 2>&1 | grep -E "^error" -A8 | head -30)
export VERIF_WEECHESS_BIN=$WT/target-verif/release/weechess
export VERIF_PLAIN_BIN=/verif/.target/harness/plain/vcheck
export VERIF_EVIDENCE_DIR=/tmp/h2$SFX-evidence
S=$(date +%s)
OUT=$(VERIF_SEED=${VERIF_SEED:-0} timeout ${TRY_TIMEOUT:-1500} /tmp/h2$SFX-target/release/vcheck $ID $TIER 2>&1)
RC=$?
E=$(date +%s)
echo "== $ID exit=$RC time=$((E-S))s (worktree $WT)"
echo "$OUT" | grep -E "violation in|^VIOLATION|HARNESS|^\[C" | cut -c1-500 | head -8
