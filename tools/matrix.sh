#!/bin/bash
# tools/matrix.sh [seed] [ids...]  - runs every stored seeded change (or the named ones) against the quick
# check of the property it breaks, in a scratch worktree (never in /repo). One line per change.
SEED=${1:-0}; shift
IDS="$@"; [ -z "$IDS" ] && IDS=$(ls /verif/seeded | grep -v '^_')
W=/tmp/wt_mx
for sid in $IDS; do
    prop=$(python3 -c "import json;print(json.load(open('/verif/seeded/$sid/meta.json'))['breaks_property'][:3])")
    git -C /repo worktree remove --force $W 2>/dev/null; rm -rf $W
    git -C /repo worktree add -q --detach $W HEAD
    if ! git -C $W apply /verif/seeded/$sid/patch.diff; then echo "$sid $prop NOAPPLY"; continue; fi
    R=$(VERIF_SEED=$SEED TRY_SUFFIX=_mx TRY_TIMEOUT=2400 /verif/tools/try_worktree.sh $W $prop 2>&1 | head -1)
    echo "$sid $prop seed=$SEED $R"
done
git -C /repo worktree remove --force $W 2>/dev/null; rm -rf $W /tmp/h2_mx /tmp/h2_mx-target /tmp/h2_mx-evidence
