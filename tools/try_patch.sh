#!/bin/bash
# tools/try_patch.sh <patch.diff> <ID> [<ID> ...]
# Applies a patch to /repo's working tree, runs the quick checks of the given properties,
# reports exit codes and VIOLATION lines, and restores /repo. Used for sensitivity testing
# (seeded changes, reverted fixes). Never commits anything in /repo.
set -u
PATCH=$(readlink -f "$1"); shift
cd /verif
if [ -n "$(git -C /repo status --porcelain --untracked-files=no)" ]; then
    echo "refusing: /repo has uncommitted changes" >&2
    exit 2
fi
if ! git -C /repo apply --check "$PATCH" 2>/dev/null; then
    echo "patch does not apply to /repo HEAD" >&2
    exit 2
fi
git -C /repo apply "$PATCH"
trap 'git -C /repo apply -R "$PATCH" 2>/dev/null || git -C /repo checkout -- . ; git -C /repo status --porcelain --untracked-files=no' EXIT
for ID in "$@"; do
    S=$(date +%s)
    OUT=$(VERIF_SEED=${VERIF_SEED:-0} timeout ${TRY_TIMEOUT:-1500} ./check "$ID" quick 2>&1)
    RC=$?
    E=$(date +%s)
    echo "== $ID exit=$RC time=$((E-S))s"
    echo "$OUT" | grep -E "violation in|^VIOLATION|HARNESS" | cut -c1-400 | head -6
done
