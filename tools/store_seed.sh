#!/bin/bash
# tools/store_seed.sh <agent-worktree> <PROP> "<what>" "<needs>" "<caught_by text>"
# Stores a confirmed sub-agent change under seeded/<id>/ (patch.diff, demo/, author_notes.txt, meta.json).
A=$(readlink -f "$1"); N=$(basename $A); P=$2
D=/verif/seeded/$N; mkdir -p $D/demo
git -C $A diff HEAD > $D/patch.diff
for f in $(git -C $A status --short | grep '^??' | awk '{print $2}' | grep -vE '^target|NOTES.txt'); do cp -r $A/$f $D/demo/; done
cp $A/NOTES.txt $D/author_notes.txt 2>/dev/null
HEAD=$(git -C /repo rev-parse --short HEAD)
jq -n --arg id "$N" --arg p "$P" --arg what "$3" --arg needs "$4" --arg caught "$5" --arg head "$HEAD" '{id:$id, breaks_property:$p, what:$what, needs_to_manifest:$needs,
 origin:"written by an independent sub-agent that saw only the property text, a focus clause, one-line descriptions of the earlier seeded changes for the property (to choose a different mechanism) and a scratch worktree of /repo; nothing from /verif",
 confirmed:["cargo test --workspace --no-fail-fast --offline in the agent'"'"'s worktree with the change (demo moved aside): 43 passed","demonstration (demo/) fails with the change and passes without it (tools/verify_seed.sh; shell demos by hand)",("patch applied to a fresh worktree of /repo HEAD ("+$head+"); check run through tools/try_seed.sh")],
 caught_by:{($p):$caught}}' > $D/meta.json
ls $D $D/demo
