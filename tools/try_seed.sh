#!/bin/bash
# tools/try_seed.sh <agent-worktree> <ID> [<ID> ...]
# Applies the tracked (uncommitted) change of a sub-agent's worktree to a fresh worktree of /repo's HEAD
# and runs the quick checks of the given properties against it through tools/try_worktree.sh.
A=$(readlink -f "$1"); shift
N=$(basename $A)
X=/tmp/wt/x_$N
git -C $A diff HEAD > /tmp/wt/$N.patch
[ -d $X ] || git -C /repo worktree add -q --detach $X HEAD
git -C $X checkout -q -- . && git -C $X apply /tmp/wt/$N.patch || { echo "patch does not apply to HEAD"; exit 2; }
for id in "$@"; do
    TRY_SUFFIX=_$N /verif/tools/try_worktree.sh $X $id ${TIER:-quick}
done
rm -rf /tmp/h2_$N /tmp/h2_$N-target /tmp/h2_$N-evidence
