#!/bin/bash
# tools/verify_seed.sh <agent-worktree> [demo test file relative path ...]
# Confirms for a sub-agent's change: (1) the 43 existing tests pass with the change (demo files moved
# aside), (2) each demo test file fails with the change and (3) passes without it (the tracked change is
# saved as a patch and re-applied: git stash is shared between worktrees and must not be used here). Prints one summary line per step. cargo-test demos only; shell demos are run by hand.
WT=$(readlink -f "$1"); shift
cd $WT || exit 2
DEMOS=$(git status --short | grep '^??' | awk '{print $2}' | grep -E 'tests/.*\.rs$|tests/$')
mkdir -p /tmp/aside.$$
for d in $DEMOS; do [ -d "$d" ] && DEMOFILES="$DEMOFILES $(ls $d*.rs)" || DEMOFILES="$DEMOFILES $d"; done
for f in $DEMOFILES; do mkdir -p /tmp/aside.$$/$(dirname $f); mv $f /tmp/aside.$$/$f; done
echo "suite with change: $(cargo test --workspace --no-fail-fast --offline 2>&1 | grep -E '^test result' | awk '{p+=$4; f+=$6} END {print p" passed, "f" failed"}')"
for f in $DEMOFILES; do mv /tmp/aside.$$/$f $f; done
rm -rf /tmp/aside.$$
for f in $DEMOFILES; do
    crate=$(echo $f | cut -d/ -f1 | tr - _); t=$(basename $f .rs)
    FL=""; grep -q "cfg(weechess_verif)" $f && FL="--cfg weechess_verif"
    echo "demo $t with change: $(RUSTFLAGS="$FL" cargo test --release --offline -p $crate --test $t 2>&1 | grep -E '^test result' | head -1)"
    git diff HEAD > /tmp/verify_seed.$$.patch; git checkout -q -- .
    echo "demo $t without change: $(RUSTFLAGS="$FL" cargo test --release --offline -p $crate --test $t 2>&1 | grep -E '^test result' | head -1)"
    git apply /tmp/verify_seed.$$.patch; rm -f /tmp/verify_seed.$$.patch
done
git status --short | grep -v target | head
