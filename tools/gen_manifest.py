#!/usr/bin/env python3
"""Regenerates /verif/MANIFEST.json from the table below (kept in one place so that the
manifest stays valid while checks are added)."""
import json, subprocess, sys

ORACLE = "independent mailbox rules oracle anchored to published perft counts at every run"

CHECKS = {
    "C01": dict(
        technique="property-based differential testing against an independent rules oracle (proptest + exhaustive enumeration of K+X v K)",
        text="Generated-input search: weechess's legal move list (all attributes) and perft totals/divides are compared with an independent rules oracle on millions of generated legal positions (random weighted play from 45 adversarial starts, constructive builder, complete K+X v K families) and through the CLI; perft depth per position from a node budget (1-7 plies, sparse positions deepest). Exploration, not proof: it shows agreement on everything generated.",
        note=ORACLE + "; positions handed over through Board::from/State::new; perft depth 0 not asserted",
        ref="DESIGN.md 6 C01",
    ),
    "C02": dict(
        technique="property-based differential testing of successors against the oracle's apply(), lock-step games, exhaustive 64x64 coordinate selection per sampled position",
        text="Generated-input search: every legal move's successor (move generator and by_performing_move) compared field by field and as FEN with the oracle over lock-step random games and constructed positions; all coordinate triples per sampled position must select exactly their legal move or be rejected; sequences with an inserted illegal element must fail.",
        note=ORACLE + "; clocks bounded as reachable by play",
        ref="DESIGN.md 6 C02",
    ),
    "C05": dict(
        technique="property-based testing against an independent terminal-position oracle; exhaustive K+X v K families; mined terminal positions with pinned pseudo-legal moves",
        text="Generated-input search: the oracle classifies every generated position as checkmate / stalemate / has a move; the evaluator must return exactly -/+mate_in_ply(ply), exactly 0, or a non-terminal score. Complete K+X v K families (exhaustive), random games, constructed positions and all their successors; mate scores checked terminal and non-increasing for ply 0..10000.",
        note=ORACLE + "; material imbalance kept <= 70 pawn units (property bounds it at 90); ply < 2^31",
        ref="DESIGN.md 6 C05",
    ),
    "C08": dict(
        technique="property-based metamorphic testing of the hash: generated equal pairs (transpositions, counters, FEN re-parse), single-component mutations and whole families that must hash injectively, over generated hasher seeds",
        text="Generated-input search over pairs of legal positions: pairs the oracle shows equal in placement/side/rights/ep must hash equal (different counters, FEN re-parse, two move orders transposing); pairs differing in exactly one rule-relevant component (piece moved/added/removed/recoloured/re-kinded, side, castling subset, legally available ep capture) must hash differently, for generated hasher seeds. Pairs the property leaves free are counted, not judged.",
        note=ORACLE + "; chance 64-bit collisions (2^-64 per pair) would be reported, probability < 1e-11 per run",
        ref="DESIGN.md 6 C08",
    ),
    "C09": dict(
        technique="exhaustive enumeration of on-ray occupancies against a coordinate ray walk, plus seeded off-ray noise",
        text="Exhaustive over the stated finite space: every subset of all squares on the rook rays (<=2^14) and bishop rays (<=2^13) of each square, each also with the own-square bit and seeded off-ray noise that must not matter; queen on every single-ray subset plus sampled whole-board occupancies; knight/king/pawn on all 64 squares. Oracle = coordinate ray walk / step patterns with explicit edge tests.",
        note="off-ray noise and queen whole-board occupancies are sampled (SplitMix64 of VERIF_SEED), everything else is complete",
        ref="DESIGN.md 6 C09",
    ),
    "C10": dict(
        technique="stateful property-based testing: generated op lists over a pool of state objects against the oracle's attack sets",
        text="Generated-input search: positions from play, the constructive builder and arbitrary placements; generated operation lists (attack queries for both colours, pawn-only sets, check queries, clones, adopting successors with warm caches) are interpreted against the oracle; every answer must match whatever the order and clone timing.",
        note=ORACLE + "; is_check asserted only when the colour has exactly one king",
        ref="DESIGN.md 6 C10",
    ),
    "C11": dict(
        technique="property-based round-trip testing (state->FEN->state and canonical text->state->text) with an independent FEN writer",
        text="Generated-input search: every position of random games reached by weechess's own successors must survive FEN write/read with the same text, fields, legal moves, hash (generated seeds) and evaluation; canonical strings from the independent writer (all 16 castling sets, ep on both ranks, extreme counters up to 2^64-1) must be reproduced character for character and parse to the generating position.",
        note="the oracle's FEN writer is correct (its round trip on the perft suite is asserted at every run)",
        ref="DESIGN.md 6 C11",
    ),
    "C12": dict(
        technique="property-based testing with an independent SAN writer: all admissible spellings of all legal moves, negative cases from pseudo-legal-but-illegal moves",
        text="Generated-input search: for each generated position and each legal move every admissible SAN spelling must resolve (parser + MoveSet::filter) to exactly that move; fully specified spellings of illegal pseudo-legal moves must resolve to nothing; Lan text must equal origin+destination+lower-case promotion and select the same move again.",
        note=ORACLE + "; only spellings a PGN writer may produce",
        ref="DESIGN.md 6 C12",
    ),
    "C13": dict(
        technique="property-based metamorphic testing (perspective negation, colour mirror) with exact integer equality",
        text="Generated-input search: evaluate(s,W,p) == -evaluate(s,B,p) and evaluate(mirror(s),!c,p) == evaluate(s,c,p) exactly, on random games, constructed positions, terminal successors and the K+X v K families, for several ply values.",
        note="the oracle's mirror() is the transformation the property describes",
        ref="DESIGN.md 6 C13",
    ),
    "C20": dict(
        technique="exhaustive enumeration of all constructor combinations with accessor read-back, injectivity of the packed value and serde round trips",
        text="Exhaustive over the stated finite space (1 474 560 constructor combinations + 8192 en-passant + 4 castling moves): every accessor returns what went in, packed values are injective over attribute tuples, == agrees with tuple equality, JSON and CBOR round trips return an equal move, bits 29-31 stay clear.",
        note="double-step flag asserted only for pawn moves of exactly two ranks (true) and non-pawn / <=1 rank moves (false)",
        ref="DESIGN.md 6 C20",
    ),
    "C03": dict(
        technique="stateful property-based testing: generated histories of searches sharing one search memory, seeded baton scheduler for worker interleavings, legality oracle on every reported line",
        text="Generated-input search over histories (1-6 searches on one artifact: same placement with different rights/ep, games, unrelated positions; table geometries down to 1x1), depths, seeds, 1-32 workers under a seeded scheduler at the shared-table accesses, optional node-clock Stop: no panic, every move of every reported line legal by the rules oracle, at least one report.",
        note=ORACLE + "; interleavings sampled by schedule seed at table-operation granularity; chance hash collisions out of reach",
        ref="DESIGN.md 6 C03",
    ),
    "C04": dict(
        technique="property-based testing with a deterministic node clock (cancellation instant and overrun measured in nodes through a cfg hook) plus generated Stop/drop scripts against the real thread wrapper under a watchdog",
        text="Generated-input search: roots incl. terminal and low-mobility positions, depth none/small/huge, 1-32 scheduled workers, Stop raised by a node clock at generated instants, on fresh memory and after one or two complete searches (mostly of the same root) on the same memory: no panic, at most 20 x 10000 x workers nodes after the Stop request, terminal roots report nothing and return, returned artifact seeds the next search. Public Searcher::analyze driven by generated scripts (Stop now/after first event/after completion/twice, drop receiver): join() returns Ok within a 60 s watchdog while the sender is still held, and a depth-limited follow-up search seeded with the returned artifact (incl. the artifact of a terminal root searched on the engine's own fresh memory) ends by itself with a legal line. Depth limits of 150-5999 on kings-and-pawns roots run in child processes that must not die (stack).",
        note="liveness decided in nodes on the synchronous path; wall-clock watchdog (>=100x typical) only for the thread/channel wrapper",
        ref="DESIGN.md 6 C04",
    ),
    "C15": dict(
        technique="model-based stateful property testing (generated insert/find/entries op lists over colliding key universes against a routing-agnostic reference map) plus multi-thread stress",
        text="Generated-input search: after every operation the private table (through a cfg hook) is compared with a reference model: find returns nothing or the latest payload under exactly that key, keys vanish only on inserts of other keys, at most one per insert and never below 8 resident keys, entries() equals the number of retrievable keys and never exceeds capacity; 2-32 real threads with owned and shared keys.",
        note="table operations are atomic under per-sub-table locks, so tagged sequential op lists are the interleaving space at operation granularity; the real-thread part is stress without schedule control",
        ref="DESIGN.md 6 C15",
    ),
    "C06": dict(
        technique="property-based testing against exact game-theoretic oracles: retrograde tablebases (all 3-man families) and an exhaustive AND/OR mate solver; seeded scheduler for worker interleavings",
        text="Generated-input search: tablebase mates in 1/3/5 plies (and solver-decided mates on generated sparse positions) must be reported with a winning terminal evaluation at depth n..n+2 for generated seeds, 1-32 scheduled workers; every winning terminal evaluation on a stride sample (quick) / fifth (thorough) of ALL tablebase positions, including drawn ones, must be a tablebase win with a mate-preserving first move. Mined positions whose only mate in one is an en-passant capture, an under-promotion or castling must be found at depth 1-3.",
        note="tablebases built from the rules oracle and self-checked against published maxima; outside the families the first move is proved to keep the mate or counted undecided, never refuted; schedules sampled",
        ref="DESIGN.md 6 C06",
    ),
    "C17": dict(
        technique="property-based testing on tablebase positions with generated repetition histories; expectation solved exhaustively in the game where recorded positions are draws",
        text="Generated-input search: tablebase mates in 3/5 plies with >= 2 preserving first moves, a generated subset of the preserving successors recorded in the history (or all successors, or the root too), depth n..n+2, seeds, 1-32 scheduled workers: a mate still forced with recorded positions as draws must be reported, never through a recorded successor; all successors recorded => evaluation exactly 0. Second part: generated positions with a constructed double pawn push that nobody can capture en passant, searched with or without the en-passant target, must afterwards be recorded as seen under the other spelling too.",
        note="expectation computed by an AND/OR solve over the 3-man graph with recorded positions as terminal draws; schedules sampled",
        ref="DESIGN.md 6 C17",
    ),
    "C19": dict(
        technique="property-based metamorphic testing: run twice (same process, after unrelated searches, across processes, through the CLI) and compare the complete event transcripts",
        text="Generated-input search: for generated sparse positions, seeds and depths the complete event sequence (lines, evaluations, depth, node counts, saturation) of two single-worker runs on a fresh memory must be identical - back to back, with an unrelated search between, across processes, through the public entry point with its default memory (depth <= 3) and through the CLI.",
        note="fresh memory on the hook path = new small artifact with hasher seed derived from the search seed",
        ref="DESIGN.md 6 C19",
    ),
    "C14": dict(
        technique="grammar-based and mutation-based fuzzing with proptest (oracle-written FEN/SAN + structural mutations, alphabets, arbitrary Unicode) in two build profiles, plus generated malformed UCI sessions against the real process",
        text="Generated-input search: every generated string is read as FEN and as SAN under catch_unwind in the checked build (debug assertions + overflow checks) and in a plain release build (child process); generated UCI sessions of malformed lines (bad tokens, mutated FENs, bad numbers, protocol commands with shuffled keywords, unreachable boards followed by a search) must keep answering isready and exit 0 on quit.",
        note="every reader call is registered with a hang watcher (60 s); go is sent at the start position, at one legal position outside the book and on ten unreachable but searchable boards; lines are valid UTF-8; boards without a king are not searched",
        ref="DESIGN.md 6 C14",
    ),
    "C16": dict(
        technique="exhaustive differential check of the built book against an independent PGN/SAN replay of all book games, plus property-based generation of right-stripped variants, real move histories and UCI sessions with rejected position commands",
        text="Exhaustive over the stated finite space (all positions in the first ten plies of all 7888 games in 132 files): lookup equals the independently replayed move set and is legal. Generated-input search for the rest: right-stripped / ep-dropped / side-flipped variants and real tempo-losing move histories must be offered nothing or only legal moves, and exactly the recorded set wherever a recorded position is reached.",
        note="oracle PGN+SAN readers must replay every game (exit 2 otherwise); ep availability = pseudo-legal availability, mismatches with legal availability counted",
        ref="DESIGN.md 6 C16",
    ),
    "C07": dict(
        technique="stateful property-based testing at the process boundary: generated UCI command sequences with generated driver timings against a session model on the rules oracle",
        text="Generated-input search: sessions over {uci, isready, ucinewgame, position, go depth/movetime/bare, stop, .state} with per-command timing actions and isready barriers, ended by quit or EOF, on book lines, tempo-losing lines, right-stripped placements, endgames, low-mobility and terminal positions: id/uciok order, one readyok per isready, exactly one legal bestmove per go in order, bestmove before the barrier after the next joining command, .state FEN equals the oracle's, exit status 0. Plus isready/uci during a running search answered before its bestmove, and go movetime 0-2499 followed by silence answered within movetime + 20 s.",
        note="command timing sampled, oracle independent of race outcomes; waits of 60 s are watchdogs",
        ref="DESIGN.md 6 C07",
    ),
    "C18": dict(
        technique="property-based differential testing at the process boundary: generated pre-ucinewgame histories, answer compared with a fresh-process control on tablebase positions with a unique mating move",
        text="Generated-input search: histories of position/go/stop before ucinewgame that search the one successor whose recording would hide a tablebase mate in 1 or 3; after ucinewgame the engine must answer score cp >= 10000 and the unique mating move, exactly like a freshly started control process (cases whose control misses the mate are discarded and counted). Second part: sessions over 8-48 targets with the worker pool size (RAYON_NUM_THREADS) as generated configuration.",
        note="seed-independent oracle by construction; stale table content that does not change the answer is not observable",
        ref="DESIGN.md 6 C18",
    ),
}

NOT_YET = {
}

ALL = ["C%02d" % i for i in range(1, 21)]


def main():
    commits = subprocess.run(
        ["git", "-C", "/repo", "log", "--format=%H %s"], capture_output=True, text=True
    ).stdout.strip().splitlines()
    hook_commits = [l.split()[0] for l in commits if "verif hook" in l]
    checks = []
    for pid in ALL:
        if pid not in CHECKS:
            continue
        c = CHECKS[pid]
        checks.append(
            {
                "property_id": pid,
                "quick_cmd": "./check %s quick" % pid,
                "thorough_cmd": "./check %s thorough" % pid,
                "evidence_file": "/verif/evidence/%s.json" % pid,
                "replay_cmd_template": "./check %s --replay {path}" % pid,
                "engine": "vcheck",
                "level_claimed": {
                    "category": "exploration",
                    "text": c["text"],
                    "design_ref": c["ref"],
                },
                "level_note": c["note"],
                "technique": c["technique"],
            }
        )
    na = [
        {"property_id": pid, "reason": NOT_YET.get(pid, "check not built yet in this phase (planned in DESIGN.md section 6); not claimed until it exists")}
        for pid in ALL
        if pid not in CHECKS
    ]
    m = {
        "version": 1,
        "setup_cmd": "./check --build",
        "hooks": {
            "guard": "--cfg weechess_verif",
            "enable": "RUSTFLAGS='--cfg weechess_verif' (set in /verif/harness/.cargo/config.toml and by ./check for the weechess binary); hooks live in weechess-engine/src/searcher/verif.rs plus cfg-guarded lines in searcher.rs",
            "baseline_off_cmd": "cd /repo && cargo test --workspace --no-fail-fast --offline",
            "source_commits": hook_commits,
            "add_only": True,
        },
        "engines": [
            {
                "name": "vcheck",
                "path": "/verif/harness",
                "serves_properties": [c["property_id"] for c in checks],
                "kind_free_text": "Rust binary: proptest (fixed seed from VERIF_SEED, shrinking, replay files), exhaustive enumerators, independent oracles, process driver for the weechess binary",
            },
        ],
        "checks": checks,
        "notes": "All checks go through ./check, which rebuilds the harness and the weechess binary from /repo's working tree first. Exit 0 held / 1 VIOLATION / 2 harness could not run.",
        "not_applicable": na,
    }
    json.dump(m, open("/verif/MANIFEST.json", "w"), indent=1)
    print("wrote MANIFEST.json with", len(checks), "checks;", len(na), "not claimed")


if __name__ == "__main__":
    main()
