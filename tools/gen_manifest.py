#!/usr/bin/env python3
"""Regenerates /verif/MANIFEST.json from the table below (kept in one place so that the
manifest stays valid while checks are added)."""
import json, subprocess, sys

ORACLE = "independent mailbox rules oracle anchored to published perft counts at every run"

CHECKS = {
    "C01": dict(
        technique="property-based differential testing against an independent rules oracle (proptest + exhaustive enumeration of K+X v K)",
        text="Generated-input search: weechess's legal move list (all attributes) and perft totals/divides are compared with an independent rules oracle on millions of generated legal positions (random weighted play from 45 adversarial starts, constructive builder, complete K+X v K families) and through the CLI. Exploration, not proof: it shows agreement on everything generated.",
        note=ORACLE + "; positions handed over through Board::from/State::new; perft depth 0 not asserted",
        ref="DESIGN.md 6 C01",
    ),
    "C02": dict(
        technique="property-based differential testing of successors against the oracle's apply(), lock-step games, exhaustive 64x64 coordinate selection per sampled position",
        text="Generated-input search: every legal move's successor (move generator and by_performing_move) compared field by field and as FEN with the oracle over lock-step random games and constructed positions; all coordinate triples per sampled position must select exactly their legal move or be rejected; sequences with an inserted illegal element must fail.",
        note=ORACLE + "; clocks bounded as reachable by play",
        ref="DESIGN.md 6 C02",
    ),
}

NOT_YET = {
}

ALL = ["C%02d" % i for i in range(1, 21)]


def main():
    commits = subprocess.run(
        ["git", "-C", "/repo", "log", "--format=%H %s"], capture_output=True, text=True
    ).stdout.strip().splitlines()
    hook_commits = [l.split()[0] for l in commits if "verif hook" in l]
    checks = []
    for pid in ALL:
        if pid not in CHECKS:
            continue
        c = CHECKS[pid]
        checks.append(
            {
                "property_id": pid,
                "quick_cmd": "./check %s quick" % pid,
                "thorough_cmd": "./check %s thorough" % pid,
                "evidence_file": "/verif/evidence/%s.json" % pid,
                "replay_cmd_template": "./check %s --replay {path}" % pid,
                "engine": "vcheck",
                "level_claimed": {
                    "category": "exploration",
                    "text": c["text"],
                    "design_ref": c["ref"],
                },
                "level_note": c["note"],
                "technique": c["technique"],
            }
        )
    na = [
        {"property_id": pid, "reason": NOT_YET.get(pid, "check not built yet in this phase (planned in DESIGN.md section 6); not claimed until it exists")}
        for pid in ALL
        if pid not in CHECKS
    ]
    m = {
        "version": 1,
        "setup_cmd": "./check --build",
        "hooks": {
            "guard": "--cfg weechess_verif",
            "enable": "RUSTFLAGS='--cfg weechess_verif' (set in /verif/harness/.cargo/config.toml and by ./check for the weechess binary); hooks live in weechess-engine/src/searcher/verif.rs plus cfg-guarded lines in searcher.rs",
            "baseline_off_cmd": "cd /repo && cargo test --workspace --no-fail-fast --offline",
            "source_commits": hook_commits,
            "add_only": True,
        },
        "engines": [
            {
                "name": "vcheck",
                "path": "/verif/harness",
                "serves_properties": [c["property_id"] for c in checks],
                "kind_free_text": "Rust binary: proptest (fixed seed from VERIF_SEED, shrinking, replay files), exhaustive enumerators, independent oracles, process driver for the weechess binary",
            },
        ],
        "checks": checks,
        "notes": "All checks go through ./check, which rebuilds the harness and the weechess binary from /repo's working tree first. Exit 0 held / 1 VIOLATION / 2 harness could not run.",
        "not_applicable": na,
    }
    json.dump(m, open("/verif/MANIFEST.json", "w"), indent=1)
    print("wrote MANIFEST.json with", len(checks), "checks;", len(na), "not claimed")


if __name__ == "__main__":
    main()
